/-
  JV.Model.JsonEncode — the two JSON text serializers of include/jsoncons/json_encoder.hpp as functions from the
  value that `basic_json::dump_noflush` walks to the bytes written.

  Value type: `Spec.Rfc8259.JT` (the reference parser's result type), read here as "what dump sees":
    null, bool, `num lit` = a number whose printed text is `lit` (int64/uint64 through `from_integer`, a
    bigint/bigdec-tagged string written raw by `write_bignum_value` (bignum_format raw, the default), a double
    through `write_double` — number printing itself is C04's subject, the literal is taken as given),
    `str s` = a string value with a tag other than noesc/bigint/bigdec, arrays, objects in STORED order
    (`jsoncons::json`: sorted by key; `ojson`: insertion order).

  `compactS sol` = `basic_compact_json_encoder` (:977-1481): one arm per visit_* function; every value visited
  inside an array writes "," first when the array's count is > 0, `visit_key` does the same for members.
  Strings go through `escape_string` (Model.JsonEscape) with escape_all_non_ascii = false and
  escape_solidus = `sol`.

  `pretty o` = `basic_json_encoder` (:39-938), the indenting encoder, with ALL of its layout options:
  indent_size, indent_char, new_line_chars, spaces_around_colon/comma, pad_inside_object_braces/array_brackets,
  the five line-split options (root, object_object, array_object, object_array, array_array; three kinds each)
  and line_length_limit. The encoder is an event-driven state machine over a stack of `encoding_context`s;
  the model is the same machine written as structured recursion: what a visit_* function reads of the
  enclosing context (`stack_.back()`: container type, split kind, count > 0, indent_before) is the parameter
  `Par`; what it writes to it (`new_line_after(true)`) is returned in `Out.nla`; `indent_amount_` and `column_`
  are the parameters `ind`, `col`; `count_`, `new_line_after_` and `data_pos_` of a container's own context
  are loop variables of `encElems` / `encMembers`. `begin_pos_` is never read by the code.
  Bug-faithful details kept: `new_line(data_pos)` pads with ' ' and not with indent_char; an object inside an
  array always starts on a new line, but under same_line with the column at/over the limit the enclosing
  array's new_line_after is NOT set; column counts bytes (escape_string returns the number of code units
  written).

  Not modelled (outside the claimed domain): escape_all_non_ascii = true (the escaper model covers it, the
  encoders here fix it to false), noesc-tagged strings (written raw), byte strings, half floats, non-finite
  doubles and their replacement options, bignum_format other than raw, max_nesting_depth (default 1024) being
  exceeded. The correspondence stream of checks/c01.py (`encoder-model`) compares both functions byte for byte
  with `dump` / `dump_pretty` on every option record it draws.
-/
import JV.Model.JsonEscape
import JV.Spec.Rfc8259
namespace JV
namespace Model
namespace JsonEncode
open Spec.Rfc8259

/-- a string value or member name as written: quote, escape_string(s, false, sol), quote -/
def strLit (sol : Bool) (s : Bytes) : Bytes :=
  34 :: ((JsonEscape.escapeString false sol s).getD []) ++ [34]

def nullLit : Bytes := [110, 117, 108, 108]
def trueLit : Bytes := [116, 114, 117, 101]
def falseLit : Bytes := [102, 97, 108, 115, 101]

/-- the comma every visit_* of the compact encoder writes first when `stack_.back().count() > 0` -/
def sep (first : Bool) : Bytes := if first then [] else [44]

mutual
  /-- `basic_compact_json_encoder` -/
  def compactS (sol : Bool) : JT → Bytes
    | .null => nullLit
    | .bool true => trueLit
    | .bool false => falseLit
    | .num lit => lit
    | .str s => strLit sol s
    | .arr xs => 91 :: (compactElems sol true xs ++ [93])
    | .obj ms => 123 :: (compactMembers sol true ms ++ [125])
  def compactElems (sol : Bool) : Bool → List JT → Bytes
    | _, [] => []
    | first, x :: xs => sep first ++ (compactS sol x ++ compactElems sol false xs)
  def compactMembers (sol : Bool) : Bool → List (Bytes × JT) → Bytes
    | _, [] => []
    | first, (k, x) :: ms => sep first ++ (strLit sol k ++ (58 :: (compactS sol x ++ compactMembers sol false ms)))
end

/-- `dump` with default options -/
def compact (v : JT) : Bytes := compactS false v

/-! ### the indenting encoder -/

/-- the layout options of `basic_json_encode_options` read by `basic_json_encoder`; defaults as in json_options.hpp.
    spaces_option: 0 no_spaces, 1 space_after, 2 space_before, 3 space_before_and_after.
    line_split_kind: 0 multi_line, 1 new_line, 2 same_line (the numeric values of the enum; the code compares them with >=) -/
structure PrettyOpts where
  indentSize : Nat := 4
  indentChar : Nat := 32
  newLine : Bytes := [10]
  colon : Nat := 1
  comma : Nat := 1
  padObj : Bool := false
  padArr : Bool := false
  root : Nat := 0
  oo : Nat := 0
  ao : Nat := 0
  oa : Nat := 0
  aa : Nat := 0
  limit : Nat := 120
  solidus : Bool := false

def spaced (kind : Nat) (c : Nat) : Bytes :=
  if kind = 1 then [c, 32] else if kind = 2 then [32, c] else if kind = 3 then [32, c, 32] else [c]

def colonStr (o : PrettyOpts) : Bytes := spaced o.colon 58
def commaStr (o : PrettyOpts) : Bytes := spaced o.comma 44
def openBrace (o : PrettyOpts) : Bytes := if o.padObj then [123, 32] else [123]
def closeBrace (o : PrettyOpts) : Bytes := if o.padObj then [32, 125] else [125]
def openBracket (o : PrettyOpts) : Bytes := if o.padArr then [91, 32] else [91]
def closeBracket (o : PrettyOpts) : Bytes := if o.padArr then [32, 93] else [93]

/-- `new_line()`: new_line_chars, then indent_amount_ copies of indent_char; column_ = indent_amount_ -/
def nl (o : PrettyOpts) (ind : Nat) : Bytes := o.newLine ++ List.replicate ind o.indentChar

/-- `new_line(len)`: new_line_chars, then len spaces; column_ = len -/
def nlPos (o : PrettyOpts) (len : Nat) : Bytes := o.newLine ++ List.replicate len 32

/-- what a visit_* function reads of `stack_.back()` -/
structure Par where
  isObj : Bool
  split : Nat
  first : Bool          -- count() == 0
  indentBefore : Bool

/-- bytes appended to the sink, `column_` afterwards, whether `stack_.back().new_line_after(true)` was executed
    on the ENCLOSING context -/
structure Out where
  out : Bytes
  col : Nat
  nla : Bool

/-- the comma written by a value visited inside an array whose count is > 0 -/
def elemComma (o : PrettyOpts) : Option Par → Bytes
  | some p => if !p.isObj && !p.first then commaStr o else []
  | none => []

/-- visit_null / bool / int64 / uint64 / double / string: `begin_scalar_value()` when inside an array, the
    line-length test, then the text `t` -/
def scalar (o : PrettyOpts) (par : Option Par) (ind col : Nat) (t : Bytes) : Out :=
  match par with
  | none => ⟨t, col + t.length, false⟩
  | some p =>
    let cm := elemComma o (some p)
    let c0 := col + cm.length
    -- begin_scalar_value: is_multi_line() || is_indent_once()
    let b1 := !p.isObj && (p.split == 0 || (p.first && p.indentBefore))
    let c1 := if b1 then ind else c0
    -- !is_multi_line() && column_ >= line_length_limit: break_line()
    let b2 := p.split != 0 && decide (o.limit ≤ c1)
    let c2 := if b2 then ind else c1
    ⟨cm ++ ((if b1 then nl o ind else []) ++ ((if b2 then nl o ind else []) ++ t)), c2 + t.length, b1 || b2⟩

/-- `static_cast<uint8_t>(option) >= static_cast<uint8_t>(stack_.back().split_kind()) ? option : stack_.back().split_kind()` -/
def childSplit (opt parent : Nat) : Nat := if opt ≥ parent then opt else parent

/-- the part of visit_begin_object before `stack_.emplace_back`: (bytes, column_, parent new_line_after set, split kind of the new context) -/
def beginObject (o : PrettyOpts) (par : Option Par) (ind col : Nat) : Bytes × Nat × Bool × Nat :=
  match par with
  | none => ([], col, false, o.root)
  | some p =>
    let cm := elemComma o (some p)
    let c0 := col + cm.length
    if p.isObj then
      let split := childSplit o.oo p.split
      let b := split != 0 && decide (o.limit ≤ c0)
      (cm ++ (if b then nl o ind else []), if b then ind else c0, b, split)
    else
      let split := childSplit o.ao p.split
      (cm ++ nl o ind, ind, !(split == 2 && decide (o.limit ≤ c0)), split)

/-- the part of visit_begin_array before `indent()`: (bytes, column_, parent new_line_after set, split kind, indent_before) -/
def beginArray (o : PrettyOpts) (par : Option Par) (ind col : Nat) : Bytes × Nat × Bool × Nat × Bool :=
  match par with
  | none => ([], col, false, o.root, false)
  | some p =>
    let cm := elemComma o (some p)
    let c0 := col + cm.length
    if p.isObj then
      let split := childSplit o.oa p.split
      (cm, c0, false, split, split != 2)
    else
      let split := childSplit o.aa p.split
      if split == 2 then
        let b := p.split == 0
        (cm ++ (if b then nl o ind else []), if b then ind else c0, b, split, false)
      else
        (cm ++ nl o ind, ind, true, split, split == 1)

mutual
  /-- one value in the context `par` at indentation `ind`, column `col` -/
  def encVal (o : PrettyOpts) (par : Option Par) (ind col : Nat) : JT → Out
    | .null => scalar o par ind col nullLit
    | .bool true => scalar o par ind col trueLit
    | .bool false => scalar o par ind col falseLit
    | .num lit => scalar o par ind col lit
    | .str s => scalar o par ind col (strLit o.solidus s)
    | .arr xs =>
      let b := beginArray o par ind col
      let c1 := b.2.1 + (openBracket o).length
      let body := encElems o b.2.2.2.1 b.2.2.2.2 (ind + o.indentSize) c1 true false xs
      -- visit_end_array: unindent(); if new_line_after() new_line(); pop; close
      ⟨b.1 ++ (openBracket o ++ (body.out ++ ((if body.nla then nl o ind else []) ++ closeBracket o))),
       (if body.nla then ind else body.col) + (closeBracket o).length, b.2.2.1⟩
    | .obj ms =>
      let b := beginObject o par ind col
      let c1 := b.2.1 + (openBrace o).length
      let body := encMembers o b.2.2.2 (ind + o.indentSize) c1 true false c1 ms
      ⟨b.1 ++ (openBrace o ++ (body.out ++ ((if body.nla then nl o ind else []) ++ closeBrace o))),
       (if body.nla then ind else body.col) + (closeBrace o).length, b.2.2.1⟩
  /-- the elements of an array whose context has split kind `split`, indent_before `ib`; loop variables: first (count == 0), nla (new_line_after) -/
  def encElems (o : PrettyOpts) (split : Nat) (ib : Bool) (ind col : Nat) : Bool → Bool → List JT → Out
    | _, nla, [] => ⟨[], col, nla⟩
    | first, nla, x :: xs =>
      let r := encVal o (some ⟨false, split, first, ib⟩) ind col x
      let rest := encElems o split ib ind r.col false (nla || r.nla) xs
      ⟨r.out ++ rest.out, rest.col, rest.nla⟩
  /-- the members of an object: visit_key, then the value; loop variables: first, nla, data_pos -/
  def encMembers (o : PrettyOpts) (split : Nat) (ind col : Nat) : Bool → Bool → Nat → List (Bytes × JT) → Out
    | _, nla, _, [] => ⟨[], col, nla⟩
    | first, nla, dataPos, (k, x) :: ms =>
      let cm := if first then [] else commaStr o
      let c0 := col + cm.length
      let b1 := split == 0                                         -- is_multi_line(): new_line_after(true); new_line()
      let b2 := !b1 && !first && decide (o.limit ≤ c0)             -- else if count > 0 && column_ >= limit: new_line(data_pos)
      let w := if b1 then nl o ind else if b2 then nlPos o dataPos else []
      let c1 := if b1 then ind else if b2 then dataPos else c0
      let dataPos1 := if first then c1 else dataPos                -- count == 0: set_position(column_)
      let key := strLit o.solidus k ++ colonStr o
      let r := encVal o (some ⟨true, split, first, false⟩) ind (c1 + key.length) x
      let rest := encMembers o split ind r.col false (nla || b1 || r.nla) dataPos1 ms
      ⟨cm ++ (w ++ (key ++ (r.out ++ rest.out))), rest.col, rest.nla⟩
end

/-- `dump_pretty` -/
def pretty (o : PrettyOpts) (v : JT) : Bytes := (encVal o none 0 0 v).out

end JsonEncode
end Model
end JV
