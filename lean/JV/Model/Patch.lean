/-
  JV.Model.Patch — include/jsoncons_ext/jsonpatch/jsonpatch.hpp: apply_patch with its undo log
  (operation_unwinder) and from_diff, as the code performs them.
-/
import JV.Model.Pointer
namespace JV
namespace Model
namespace Patch
open Assoc Pointer

inductive PatchErr where
  | invalidPatch | testFailed | addFailed | removeFailed | replaceFailed | moveFailed | copyFailed
  deriving Repr, DecidableEq

/-- an `operation_unwinder::entry` -/
inductive Undo where
  | add (path : List Bytes) (v : JVal)
  | remove (path : List Bytes)
  | replace (path : List Bytes) (v : JVal)
  deriving Repr

def sOp : Bytes := [111, 112]
def sPath : Bytes := [112, 97, 116, 104]
def sFrom : Bytes := [102, 114, 111, 109]
def sValue : Bytes := [118, 97, 108, 117, 101]
def sTest : Bytes := [116, 101, 115, 116]
def sAdd : Bytes := [97, 100, 100]
def sRemove : Bytes := [114, 101, 109, 111, 118, 101]
def sReplace : Bytes := [114, 101, 112, 108, 97, 99, 101]
def sMove : Bytes := [109, 111, 118, 101]
def sCopy : Bytes := [99, 111, 112, 121]

/-- `definite_path(root, location)` (:84-117): a trailing `-` becomes the parent array's size -/
def definitePath (root : JVal) (loc : List Bytes) : List Bytes :=
  match loc.getLast? with
  | none => loc
  | some last =>
    if last ≠ [45] then loc
    else
      let parent := loc.dropLast
      match get root parent with
      | .ok (.arr xs) => parent ++ [natDigits xs.length]
      | _ => loc

/-- the "insert, else replace" sequence shared by add, move and copy (:374-402, :480-507, :529-555).
    Returns the error flag, the document and the undo entry to push. -/
def addLike (ordered : Bool) (target : JVal) (npath : List Bytes) (val : JVal) : Bool × JVal × List Undo :=
  let ins := if npath = [] then (some PErr.keyExists, target)      -- the root always exists: replace it
             else apply ordered false (.addIfAbsent val) target npath
  match ins.1 with
  | none => (true, ins.2, [.remove npath])
  | some _ =>
    match get ins.2 npath with
    | .error _ => (false, ins.2, [])
    | .ok orig =>
      let rep := apply ordered false (.replace val) ins.2 npath
      match rep.1 with
      | some _ => (false, rep.2, [])
      | none => (true, rep.2, [.replace npath orig])

def strOf : JVal → Option Bytes
  | .str s => some s
  | _ => none

abbrev OpResult := Option PatchErr × JVal × List Undo

def opTest (target : JVal) (location : List Bytes) (om : List (Bytes × JVal)) : OpResult :=
  match get target location with
  | .error _ => (some .testFailed, target, [])
  | .ok val =>
    match find sValue om with
    | none => (some .invalidPatch, target, [])
    | some v => if val != v then (some .testFailed, target, []) else (none, target, [])

def opAdd (ordered : Bool) (target : JVal) (location : List Bytes) (om : List (Bytes × JVal)) : OpResult :=
  match find sValue om with
  | none => (some .invalidPatch, target, [])
  | some v =>
    let r := addLike ordered target (definitePath target location) v
    if r.1 then (none, r.2.1, r.2.2) else (some .addFailed, r.2.1, [])

def opRemove (ordered : Bool) (target : JVal) (location : List Bytes) : OpResult :=
  match get target location with
  | .error _ => (some .removeFailed, target, [])
  | .ok val =>
    let r := apply ordered false .remove target location
    match r.1 with
    | some _ => (some .removeFailed, r.2, [])
    | none => (none, r.2, [.add location val])

def opReplace (ordered : Bool) (target : JVal) (location : List Bytes) (om : List (Bytes × JVal)) : OpResult :=
  match get target location with
  | .error _ => (some .replaceFailed, target, [])
  | .ok val =>
    match find sValue om with
    | none => (some .invalidPatch, target, [])
    | some v =>
      let r := apply ordered false (.replace v) target location
      match r.1 with
      | some _ => (some .replaceFailed, r.2, [])
      | none => (none, r.2, [.replace location val])

def opMove (ordered : Bool) (target : JVal) (location : List Bytes) (om : List (Bytes × JVal)) : OpResult :=
  match (find sFrom om).bind strOf with
  | none => (some .invalidPatch, target, [])
  | some from_ =>
    match parse from_ with
    | .error _ => (some .moveFailed, target, [])
    | .ok fromPtr =>
      match get target fromPtr with
      | .error _ => (some .moveFailed, target, [])
      | .ok val =>
        let r := apply ordered false .remove target fromPtr
        match r.1 with
        | some _ => (some .moveFailed, r.2, [])
        | none =>
          let a := addLike ordered r.2 (definitePath r.2 location) val
          -- the `add from` entry is on the stack whether or not the second half succeeds
          if a.1 then (none, a.2.1, a.2.2 ++ [.add fromPtr val])
          else (some .copyFailed, a.2.1, [.add fromPtr val])

def opCopy (ordered : Bool) (target : JVal) (location : List Bytes) (om : List (Bytes × JVal)) : OpResult :=
  match (find sFrom om).bind strOf with
  | none => (some .invalidPatch, target, [])
  | some from_ =>
    match getStr target from_ with
    | .error _ => (some .copyFailed, target, [])
    | .ok val =>
      let a := addLike ordered target (definitePath target location) val
      if a.1 then (none, a.2.1, a.2.2) else (some .copyFailed, a.2.1, [])

/-- one iteration of the loop over `patch.array_range()`:
    (error?, document afterwards, undo entries pushed during this iteration — newest first) -/
def applyOp (ordered : Bool) (target : JVal) (operation : JVal) : OpResult :=
  match operation with
  | .obj om =>
    match (find sOp om).bind strOf with
    | none => (some .invalidPatch, target, [])
    | some op =>
      match (find sPath om).bind strOf with
      | none => (some .invalidPatch, target, [])
      | some path =>
        match parse path with
        | .error _ => (some .invalidPatch, target, [])
        | .ok location =>
          if op = sTest then opTest target location om
          else if op = sAdd then opAdd ordered target location om
          else if op = sRemove then opRemove ordered target location
          else if op = sReplace then opReplace ordered target location om
          else if op = sMove then opMove ordered target location om
          else if op = sCopy then opCopy ordered target location om
          else (some .invalidPatch, target, [])           -- unknown "op"
  | _ => (some .invalidPatch, target, [])

/-- `~operation_unwinder` when the state is not `commit`: newest entry first, stop at the first failure -/
def unwind (ordered : Bool) : JVal → List Undo → JVal
  | target, [] => target
  | target, u :: us =>
    let r := match u with
      | .add p v => apply ordered false (.add v) target p
      | .remove p => apply ordered false .remove target p
      | .replace p v => apply ordered false (.replace v) target p
    match r.1 with
    | some _ => r.2
    | none => unwind ordered r.2 us

/-- the loop of `apply_patch` with the unwinder's stack (newest first) -/
def applyLoop (ordered : Bool) : JVal → List JVal → List Undo → Option PatchErr × JVal
  | target, [], _ => (none, target)                                   -- state = commit
  | target, operation :: ops, stack =>
    let r := applyOp ordered target operation
    match r.1 with
    | some e => (some e, unwind ordered r.2.1 (r.2.2 ++ stack))       -- state = abort: destructor unwinds
    | none => applyLoop ordered r.2.1 ops (r.2.2 ++ stack)

/-- `apply_patch(target, patch, ec)` (:303-568) -/
def applyPatch (ordered : Bool) (target patch : JVal) : Option PatchErr × JVal :=
  match patch with
  | .arr ops => applyLoop ordered target ops []
  | _ => (some .invalidPatch, target)

/-! ### from_diff (:203-299) -/

def opObj (ordered : Bool) (op : Bytes) (path : Bytes) (value : Option JVal) : JVal :=
  let m0 := insertOrAssign ordered sOp (.str op) []
  let m1 := insertOrAssign ordered sPath (.str path) m0
  match value with
  | none => .obj m1
  | some v => .obj (insertOrAssign ordered sValue v m1)

/-- "Element in source, not in target - remove": indices from `source.size()-1` down to `target.size()` -/
def removeOps (ordered : Bool) (path : Bytes) (lo : Nat) : Nat → List JVal
  | 0 => []
  | n + 1 => opObj ordered sRemove (path ++ 47 :: natDigits (lo + n)) none :: removeOps ordered path lo n

def addOps (ordered : Bool) (path : Bytes) : Nat → List JVal → List JVal
  | _, [] => []
  | i, a :: as => opObj ordered sAdd (path ++ 47 :: natDigits i) (some a) :: addOps ordered path (i + 1) as

def diffAdded (ordered : Bool) (path : Bytes) (sm : List (Bytes × JVal)) : List (Bytes × JVal) → List JVal
  | [] => []
  | (k, tv) :: tm =>
    (match find k sm with
     | some _ => []
     | none => [opObj ordered sAdd (path ++ 47 :: escapeToken k) (some tv)])
    ++ diffAdded ordered path sm tm

mutual
  def fromDiff (ordered : Bool) (path : Bytes) : JVal → JVal → List JVal
    | .arr ss, target =>
      if (JVal.arr ss) == target then []
      else match target with
        | .arr tt =>
          diffElems ordered path 0 ss tt
            ++ removeOps ordered path tt.length (ss.length - tt.length)
            ++ addOps ordered path ss.length (tt.drop ss.length)
        | _ => [opObj ordered sReplace path (some target)]
    | .obj sm, target =>
      if (JVal.obj sm) == target then []
      else match target with
        | .obj tm => diffMembers ordered path sm tm ++ diffAdded ordered path sm tm
        | _ => [opObj ordered sReplace path (some target)]
    | source, target =>
      if source == target then [] else [opObj ordered sReplace path (some target)]
  def diffElems (ordered : Bool) (path : Bytes) : Nat → List JVal → List JVal → List JVal
    | i, s :: ss, t :: tt => fromDiff ordered (path ++ 47 :: natDigits i) s t ++ diffElems ordered path (i + 1) ss tt
    | _, _, _ => []
  def diffMembers (ordered : Bool) (path : Bytes) : List (Bytes × JVal) → List (Bytes × JVal) → List JVal
    | [], _ => []
    | (k, sv) :: sm, tm =>
      (match find k tm with
       | some tv => fromDiff ordered (path ++ 47 :: escapeToken k) sv tv
       | none => [opObj ordered sRemove (path ++ 47 :: escapeToken k) none])
      ++ diffMembers ordered path sm tm
end
end Patch
end Model
end JV
