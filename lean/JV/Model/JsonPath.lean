/-
  JV.Model.JsonPath — the core of jsoncons JSONPath evaluation (jsonpath_selector.hpp, token_evaluator.hpp,
  path_node.hpp, json_query.hpp) as functions over `JVal`.

  A compiled expression is a list of segments; every selector class hands each selected child, with its extended
  normalized path, to the rest of the chain (`tail_select`), so evaluation is a depth-first `flatMap`.
  Modelled: identifier, index (negative from the end), wildcard, slice (jsoncons' `get_start`/`get_stop`/loop
  arithmetic written out), union, recursive descent (pre-order over containers, the container itself first),
  comparison filters (`==`, `!=`, `<`, `<=`, `>`, `>=`, `&&`, `||`, `!`, singular `@`/`$` paths, literals);
  result options nodups / sort / sort_descending as in `path_expression::evaluate`; `json_replace`.
  Not modelled: functions, the `length` pseudo-member, identifiers that are decimal integers applied to arrays, parent
  operator `^`, arithmetic and regex operators, doubles (the generator of the correspondence check avoids them).
-/
import JV.Basic.JVal
namespace JV
namespace Model
namespace JsonPath
open Assoc

inductive Step where
  | name (k : Bytes)
  | idx (i : Nat)
  deriving DecidableEq, Repr, Inhabited

abbrev Path := List Step

/-- one step of `jsonpath::select(root, path_node)` / `jsonpath::get(root, location)` -/
def child : JVal → Step → Option JVal
  | .obj ms, .name k => find k ms
  | .arr xs, .idx i => xs[i]?
  | _, _ => none

def resolve : JVal → Path → Option JVal
  | v, [] => some v
  | v, s :: p => match child v s with
    | some c => resolve c p
    | none => none

/-! ### slices -/

structure Slice where
  start : Option Int
  stop : Option Int
  step : Int
  deriving Repr, Inhabited

/-- `slice::get_start(size)` -/
def getStart (s : Slice) (n : Int) : Int :=
  match s.start with
  | some a => let len := if a ≥ 0 then a else n + a; if len ≤ n then len else n
  | none => if s.step ≥ 0 then 0 else n

/-- `slice::get_stop(size)` -/
def getStop (s : Slice) (n : Int) : Int :=
  match s.stop with
  | some a => let len := if a ≥ 0 then a else n + a; if len ≤ n then len else n
  | none => if s.step ≥ 0 then n else -1

/-- `for (i = start; i < end; i += step)`; fuel = an upper bound on the number of iterations -/
def upLoop : Nat → Int → Int → Int → List Int
  | 0, _, _, _ => []
  | fuel + 1, i, e, step => if i < e then i :: upLoop fuel (i + step) e step else []

/-- `for (i = start; i > end; i += step)` with step < 0 -/
def downLoop : Nat → Int → Int → Int → List Int
  | 0, _, _, _ => []
  | fuel + 1, i, e, step => if i > e then i :: downLoop fuel (i + step) e step else []

/-- the indices `slice_selector::select` visits on an array of `n` elements, in order -/
def sliceIdx (s : Slice) (n : Nat) : List Nat :=
  let gs := getStart s n
  let ge := getStop s n
  if s.step > 0 then
    let start := if gs < 0 then 0 else gs
    let e := if ge > n then (n : Int) else ge
    (upLoop (n + 1) start e s.step).map Int.toNat
  else if s.step < 0 then
    let start := if gs ≥ n then (n : Int) - 1 else gs
    let e := if ge < -1 then -1 else ge
    ((downLoop (n + 1) start e s.step).filter fun (i : Int) => decide (0 ≤ i ∧ i < (n : Int))).map Int.toNat
  else []

/-! ### filter expressions -/

inductive CmpOp where
  | eq | ne | lt | le | gt | ge
  deriving DecidableEq, Repr

inductive FStep where
  | name (k : Bytes)
  | idx (i : Int)
  deriving Repr

inductive FE where
  | lit (v : JVal)
  | path (fromRoot : Bool) (steps : List FStep)
  | not (e : FE)
  | and (a b : FE)
  | or (a b : FE)
  | cmp (op : CmpOp) (a b : FE)
  deriving Repr

/-- `detail::is_false` -/
def isFalse : JVal → Bool
  | .arr [] => true
  | .obj [] => true
  | .str [] => true
  | .bool false => true
  | .null => true
  | _ => false

/-- `selector::evaluate` for the singular steps: a missing member or element is `null` -/
def fstep (v : JVal) : FStep → JVal
  | .name k => match v with
    | .obj ms => (find k ms).getD .null
    | _ => .null
  | .idx i => match v with
    | .arr xs =>
      let n : Int := xs.length
      if 0 ≤ i ∧ i < n then xs.getD i.toNat .null
      else if 0 ≤ n + i ∧ n + i < n then xs.getD (n + i).toNat .null
      else .null
    | _ => .null

def strLe (a b : Bytes) : Bool := !keyLt b a

def cmpVals (op : CmpOp) (a b : JVal) : JVal :=
  match op with
  | .eq => .bool (a == b)
  | .ne => .bool (!(a == b))
  | _ =>
    match a, b with
    | .int x, .int y => .bool (match op with | .lt => x < y | .le => x ≤ y | .gt => x > y | _ => x ≥ y)
    | .str x, .str y => .bool (match op with | .lt => keyLt x y | .le => strLe x y | .gt => keyLt y x | _ => strLe y x)
    | _, _ => .null

def evalFE (root cur : JVal) : FE → JVal
  | .lit v => v
  | .path fromRoot steps => steps.foldl fstep (if fromRoot then root else cur)
  | .not e => .bool (isFalse (evalFE root cur e))
  | .and a b => let x := evalFE root cur a; if !isFalse x then evalFE root cur b else x
  | .or a b =>
    let x := evalFE root cur a
    let y := evalFE root cur b
    if x.isNull && y.isNull then .null else if !isFalse x then x else y
  | .cmp op a b => cmpVals op (evalFE root cur a) (evalFE root cur b)

/-! ### selectors and segments -/

inductive Sel where
  | name (k : Bytes)
  | index (i : Int)
  | wild
  | slice (s : Slice)
  | filter (e : FE)
  deriving Repr

inductive Seg where
  | child (alts : List Sel)       -- `.name`, `[sel]`, `[sel, sel, …]`
  | desc (alts : List Sel)        -- `..name`, `..[sel, …]`, `..*`
  deriving Repr

abbrev Node := Path × JVal

def arrChildren (p : Path) (xs : List JVal) : List Node :=
  (List.range xs.length).filterMap fun i => xs[i]?.map fun x => (p ++ [.idx i], x)

def objChildren (p : Path) (ms : List (Bytes × JVal)) : List Node :=
  ms.map fun m => (p ++ [.name m.1], m.2)

def pickIdx (p : Path) (xs : List JVal) (is : List Nat) : List Node :=
  is.filterMap fun i => xs[i]?.map fun x => (p ++ [.idx i], x)

/-- the children of `cur` (at path `p`) one selector selects, in selection order -/
def select1 (root : JVal) (sel : Sel) (p : Path) (cur : JVal) : List Node :=
  match sel, cur with
  | .name k, .obj ms => match find k ms with
    | some x => [(p ++ [.name k], x)]
    | none => []
  | .index i, .arr xs =>
    let n : Int := xs.length
    if 0 ≤ i ∧ i < n then pickIdx p xs [i.toNat]
    else if 0 ≤ n + i ∧ n + i < n then pickIdx p xs [(n + i).toNat]
    else []
  | .wild, .arr xs => arrChildren p xs
  | .wild, .obj ms => objChildren p ms
  | .slice s, .arr xs => pickIdx p xs (sliceIdx s xs.length)
  | .filter e, .arr xs => (arrChildren p xs).filter fun c => !isFalse (evalFE root c.2 e)
  | .filter e, .obj ms => (objChildren p ms).filter fun c => !isFalse (evalFE root c.2 e)
  | _, _ => []

mutual
  /-- `recursive_selector::select`: containers only, the node itself before its children, pre-order -/
  def descend : Path → JVal → List Node
    | p, .arr xs => (p, .arr xs) :: descendArr p 0 xs
    | p, .obj ms => (p, .obj ms) :: descendObj p ms
    | _, _ => []
  def descendArr : Path → Nat → List JVal → List Node
    | _, _, [] => []
    | p, i, x :: xs => descend (p ++ [.idx i]) x ++ descendArr p (i + 1) xs
  def descendObj : Path → List (Bytes × JVal) → List Node
    | _, [] => []
    | p, (k, x) :: ms => descend (p ++ [.name k]) x ++ descendObj p ms
end

def evalSegs (root : JVal) : List Seg → Node → List Node
  | [], nd => [nd]
  | .child alts :: rest, nd =>
    alts.flatMap fun a => (select1 root a nd.1 nd.2).flatMap (evalSegs root rest)
  | .desc alts :: rest, nd =>
    (descend nd.1 nd.2).flatMap fun d => alts.flatMap fun a => (select1 root a d.1 d.2).flatMap (evalSegs root rest)

/-- `$` followed by the segments -/
def query (root : JVal) (segs : List Seg) : List Node := evalSegs root segs ([], root)

/-! ### result options -/

/-- `basic_path_node::compare_node`: names sort before indices -/
def stepLt : Step → Step → Bool
  | .name a, .name b => keyLt a b
  | .name _, .idx _ => true
  | .idx _, .name _ => false
  | .idx a, .idx b => a < b

/-- `operator<` on path nodes: lexicographic from the root, a proper prefix first -/
def pathLt : Path → Path → Bool
  | [], [] => false
  | [], _ :: _ => true
  | _ :: _, [] => false
  | a :: as, b :: bs => if stepLt a b then true else if stepLt b a then false else pathLt as bs

def pathLe (a b : Path) : Bool := !pathLt b a

/-- nodups without sorting: the first occurrence of every path, in selection order -/
def nodups : List Node → List Path → List Node
  | [], _ => []
  | nd :: rest, seen => if nd.1 ∈ seen then nodups rest seen else nd :: nodups rest (nd.1 :: seen)

/-- `std::unique` on a sorted vector -/
def uniqAdj : List Node → List Node
  | [] => []
  | [a] => [a]
  | a :: b :: rest => if a.1 = b.1 then uniqAdj (b :: rest) else a :: uniqAdj (b :: rest)

structure Opts where
  nodups : Bool
  sort : Bool
  desc : Bool

def sortNodes (l : List Node) : List Node := l.mergeSort fun a b => pathLe a.1 b.1

def applyOpts (o : Opts) (l : List Node) : List Node :=
  if o.desc then
    let s := (sortNodes l)
    (if o.nodups then uniqAdj s else s).reverse
  else if o.sort then
    let s := sortNodes l
    if o.nodups then uniqAdj s else s
  else if o.nodups then nodups l []
  else l

/-! ### json_replace -/

def setChild (v : JVal) (s : Step) (c : JVal) : JVal :=
  match v, s with
  | .obj ms, .name k => .obj (ms.map fun m => if m.1 = k then (m.1, c) else m)
  | .arr xs, .idx i => .arr (xs.set i c)
  | v, _ => v

/-- assign `nv` to the node at `p` (nothing happens when `p` does not resolve) -/
def setAt (v : JVal) (p : Path) (nv : JVal) : JVal :=
  match p with
  | [] => nv
  | s :: p' => match child v s with
    | some c => setChild v s (setAt c p' nv)
    | none => v

/-- `json_replace(root, expr, nv)`: selected nodes without duplicates, in descending path order, each assigned `nv` -/
def replaceAll (root : JVal) (segs : List Seg) (nv : JVal) : JVal :=
  (applyOpts { nodups := true, sort := false, desc := true } (query root segs)).foldl (fun d nd => setAt d nd.1 nv) root

end JsonPath
end Model
end JV
