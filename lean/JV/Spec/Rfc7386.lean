/-
  JV.Spec.Rfc7386 — RFC 7386 §2, transcribed:

     define MergePatch(Target, Patch):
       if Patch is an Object:
         if Target is not an Object:
           Target = {} # Ignore the contents and set it to an empty Object
         for each Name/Value pair in Patch:
           if Value is null:
             if Name exists in Target:
               remove the Name/Value pair from Target
           else:
             Target[Name] = MergePatch(Target[Name], Value)
         return Target
       else:
         return Patch

  Objects are finite maps, represented canonically (keys strictly increasing) with the map
  operations `find`, `erase`, `assign`; their map laws are proved in `JV.Proofs.Assoc`/`MergePatch`.
  `Target[Name]` of an absent name is "undefined", represented by `null` (any non-object works:
  the first branch discards it).
-/
import JV.Basic.JVal
namespace JV.Spec.Rfc7386
open JV Assoc

/-- `Target[Name] = Value` on the canonical representation -/
def assign (k : Bytes) (v : JVal) : List (Bytes × JVal) → List (Bytes × JVal)
  | [] => [(k, v)]
  | (k', v') :: ms =>
    if k' = k then (k, v) :: ms
    else if keyLt k' k then (k', v') :: assign k v ms
    else (k, v) :: (k', v') :: ms

mutual
  def mergePatch : JVal → JVal → JVal
    | target, .obj pm =>
      .obj (mergeMembers (match target with | .obj tm => tm | _ => []) pm)
    | _, .null => .null
    | _, .bool b => .bool b
    | _, .int i => .int i
    | _, .str s => .str s
    | _, .arr xs => .arr xs
  def mergeMembers : List (Bytes × JVal) → List (Bytes × JVal) → List (Bytes × JVal)
    | tm, [] => tm
    | tm, (k, pv) :: pm =>
      if pv.isNull then mergeMembers (erase k tm) pm
      else mergeMembers (assign k (mergePatch ((find k tm).getD .null) pv) tm) pm
end

end JV.Spec.Rfc7386
