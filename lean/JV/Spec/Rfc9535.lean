/-
  JV.Spec.Rfc9535 — array slice selector semantics, transcribed from RFC 9535 §2.3.4.2.2 (the same rule as Python's
  and Goessner's `[start:end:step]`):

    Normalize(i, len) = i if i >= 0, else len + i
    defaults:  step >= 0: start = 0, end = len;   step < 0: start = len - 1, end = -len - 1
    Bounds:    step >= 0: lower = MIN(MAX(n_start, 0), len),   upper = MIN(MAX(n_end, 0), len)
               step <  0: upper = MIN(MAX(n_start, -1), len-1), lower = MIN(MAX(n_end, -1), len-1)
    step > 0:  i = lower; while i < upper: select a(i); i += step
    step < 0:  i = upper; while lower < i: select a(i); i += step
    step = 0:  nothing

  The loops are stated as what they enumerate: the arithmetic progression from the first bound, inside the bounds, in
  the direction of the step.
-/
namespace JV.Spec.Rfc9535

def normalize (i len : Int) : Int := if i ≥ 0 then i else len + i

def clampLo (x lo : Int) : Int := if x < lo then lo else x
def clampHi (x hi : Int) : Int := if x > hi then hi else x

structure Bounds where
  lower : Int
  upper : Int

def bounds (start stop : Option Int) (step len : Int) : Bounds :=
  let start' := match start with | some a => a | none => if step ≥ 0 then 0 else len - 1
  let stop' := match stop with | some a => a | none => if step ≥ 0 then len else -len - 1
  let ns := normalize start' len
  let ne := normalize stop' len
  if step ≥ 0 then { lower := clampHi (clampLo ns 0) len, upper := clampHi (clampLo ne 0) len }
  else { upper := clampHi (clampLo ns (-1)) (len - 1), lower := clampHi (clampLo ne (-1)) (len - 1) }

/-- `x` is selected by `[start:stop:step]` on an array of `len` elements -/
def Selected (start stop : Option Int) (step : Int) (len : Nat) (x : Int) : Prop :=
  let b := bounds start stop step len
  (step > 0 ∧ b.lower ≤ x ∧ x < b.upper ∧ step ∣ (x - b.lower)) ∨
  (step < 0 ∧ b.lower < x ∧ x ≤ b.upper ∧ step ∣ (b.upper - x))

end JV.Spec.Rfc9535
