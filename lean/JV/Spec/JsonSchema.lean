/-
  JV.Spec.JsonSchema — a reference validator for the unambiguous core of JSON Schema (2020-12 vocabulary; the same
  keywords under their older spellings in Drafts 4–2019-09), written from the specification: the applicator, validation
  and unevaluated vocabularies over integers, strings, booleans, null, arrays and objects.

  A schema is a boolean or a set of keywords. Keywords whose meaning depends on siblings are grouped as the specification
  groups them: `properties` with `additionalProperties`, `prefixItems` with `items`, `if` with `then`/`else`; `unevaluatedProperties`
  and `unevaluatedItems` are evaluated after everything else in the same schema object, against the annotations collected from
  the successful in-place applicators (`allOf`, `anyOf`, `oneOf`, `if/then/else`, and `$ref`, which the driver inlines).
  `validate` returns the annotations of a successful evaluation, or `none` when the instance is invalid.
-/
import JV.Basic.JVal
namespace JV.Spec.JsonSchema
open JV

inductive TypeName where
  | null | boolean | integer | number | string | array | object
  deriving DecidableEq, Repr

/-- annotations that matter to the unevaluated keywords -/
structure Ann where
  props : List Bytes := []       -- evaluated property names
  items : Nat := 0               -- the first `items` elements are evaluated
  allItems : Bool := false
  deriving Repr

def Ann.merge (a b : Ann) : Ann :=
  { props := a.props ++ b.props, items := max a.items b.items, allItems := a.allItems || b.allItems }

mutual
  inductive Schema where
    | bool (b : Bool)
    | node (kws : List Kw) (unevalProps : Option Schema) (unevalItems : Option Schema)
  inductive Kw where
    | type (ts : List TypeName)
    | enum (vs : List JVal)
    | const (v : JVal)
    | minimum (n : Int) | maximum (n : Int) | exclusiveMinimum (n : Int) | exclusiveMaximum (n : Int)
    | multipleOf (n : Int)
    | minLength (n : Nat) | maxLength (n : Nat)
    | minItems (n : Nat) | maxItems (n : Nat) | uniqueItems (b : Bool)
    | items (prefixS : List Schema) (rest : Option Schema)
    | contains (s : Schema) (minC : Nat) (maxC : Option Nat)
    | props (ps : List PropS) (additional : Option Schema)
    | required (ks : List Bytes)
    | minProperties (n : Nat) | maxProperties (n : Nat)
    | propertyNames (s : Schema)
    | dependentRequired (deps : List (Bytes × List Bytes))
    | allOf (ss : List Schema) | anyOf (ss : List Schema) | oneOf (ss : List Schema)
    | not (s : Schema)
    | cond (i : Schema) (t : Option Schema) (e : Option Schema)
  inductive PropS where
    | mk (name : Bytes) (s : Schema)
end

def hasType (v : JVal) : TypeName → Bool
  | .null => v.isNull
  | .boolean => match v with | .bool _ => true | _ => false
  | .integer => match v with | .int _ => true | _ => false
  | .number => match v with | .int _ => true | _ => false
  | .string => match v with | .str _ => true | _ => false
  | .array => v.isArray
  | .object => v.isObject

/-- code points of valid UTF-8: bytes that are not continuation bytes -/
def strLength (s : Bytes) : Nat := (s.filter fun c => !(128 ≤ c ∧ c < 192)).length

def allDistinct : List JVal → Bool
  | [] => true
  | x :: xs => !(xs.any (· == x)) && allDistinct xs

def count (p : JVal → Bool) (xs : List JVal) : Nat := (xs.filter p).length

/-- all results must succeed; annotations are merged -/
def allAnn : List (Option Ann) → Option Ann
  | [] => some {}
  | none :: _ => none
  | some a :: rest => (allAnn rest).map (a.merge ·)

/-- annotations of the successful ones -/
def someAnn (rs : List (Option Ann)) : Ann := rs.foldl (fun acc r => match r with | some a => acc.merge a | none => acc) {}

def itemsResult (prefixOk : List JVal → Bool) (npre : Nat) (rest : Option (JVal → Bool)) (v : JVal) : Option Ann :=
  match v with
  | .arr xs =>
    if prefixOk xs then
      match rest with
      | none => some { items := min npre xs.length }
      | some f => if (xs.drop npre).all f then some { items := xs.length, allItems := true } else none
    else none
  | _ => some {}

def containsResult (f : JVal → Bool) (minC : Nat) (maxC : Option Nat) (v : JVal) : Option Ann :=
  match v with
  | .arr xs =>
    let n := count f xs
    if decide (minC ≤ n) && (match maxC with | some m => decide (n ≤ m) | none => true) then some {} else none
  | _ => some {}

def propsResult (declaredOk : List (Bytes × JVal) → Bool) (named : List Bytes) (additional : Option (JVal → Bool)) (v : JVal) : Option Ann :=
  match v with
  | .obj ms =>
    if declaredOk ms then
      match additional with
      | none => some { props := (ms.map (·.1)).filter named.contains }
      | some f =>
        if (ms.filter fun m => !named.contains m.1).all (fun m => f m.2) then some { props := ms.map (·.1) } else none
    else none
  | _ => some {}

/-- `if`: its annotations count when it holds; then `then` (or `else`) decides -/
def condResult (ri : Option Ann) (rt re : Option (Option Ann)) : Option Ann :=
  match ri with
  | some ai => (match rt with
    | none => some ai
    | some r => r.map (ai.merge ·))
  | none => (match re with
    | none => some {}
    | some r => r)

/-- `unevaluatedItems`: the elements no sibling evaluated must satisfy the check -/
def unevalItems (check : Option (JVal → Bool)) (v : JVal) (ann : Ann) : Option Ann :=
  match check, v with
  | some f, .arr xs =>
    if ann.allItems then some ann
    else if (xs.drop ann.items).all f then some { ann with allItems := true } else none
  | _, _ => some ann

/-- `unevaluatedProperties`: the members no sibling evaluated must satisfy the check -/
def unevalProps (check : Option (JVal → Bool)) (v : JVal) (ann : Ann) : Option Ann :=
  match check, v with
  | some f, .obj ms =>
    if (ms.filter fun m => !ann.props.contains m.1).all (fun m => f m.2)
    then some { ann with props := ann.props ++ ms.map (·.1) } else none
  | _, _ => some ann

def finish (checkItems checkProps : Option (JVal → Bool)) (v : JVal) : Option Ann → Option Ann
  | none => none
  | some ann => match unevalItems checkItems v ann with
    | none => none
    | some ann1 => unevalProps checkProps v ann1

mutual
  def validate : Schema → JVal → Option Ann
    | .bool b, _ => if b then some {} else none
    | .node kws up ui, v =>
      -- unevaluatedItems, then unevaluatedProperties, each seeing what the siblings evaluated
      let checkItems : Option (JVal → Bool) := match ui with
        | some s => some (fun x => (validate s x).isSome)
        | none => none
      let checkProps : Option (JVal → Bool) := match up with
        | some s => some (fun x => (validate s x).isSome)
        | none => none
      finish checkItems checkProps v (validateKws kws v)
  def validateKws : List Kw → JVal → Option Ann
    | [], _ => some {}
    | k :: ks, v =>
      match validateKw k v with
      | none => none
      | some a => (validateKws ks v).map (a.merge ·)
  def validateKw : Kw → JVal → Option Ann
    | .type ts, v => if ts.any (hasType v) then some {} else none
    | .enum vs, v => if vs.any (· == v) then some {} else none
    | .const c, v => if c == v then some {} else none
    | .minimum n, v => match v with | .int i => if n ≤ i then some {} else none | _ => some {}
    | .maximum n, v => match v with | .int i => if i ≤ n then some {} else none | _ => some {}
    | .exclusiveMinimum n, v => match v with | .int i => if n < i then some {} else none | _ => some {}
    | .exclusiveMaximum n, v => match v with | .int i => if i < n then some {} else none | _ => some {}
    | .multipleOf n, v => match v with | .int i => if n > 0 ∧ i % n = 0 then some {} else none | _ => some {}
    | .minLength n, v => match v with | .str s => if n ≤ strLength s then some {} else none | _ => some {}
    | .maxLength n, v => match v with | .str s => if strLength s ≤ n then some {} else none | _ => some {}
    | .minItems n, v => match v with | .arr xs => if n ≤ xs.length then some {} else none | _ => some {}
    | .maxItems n, v => match v with | .arr xs => if xs.length ≤ n then some {} else none | _ => some {}
    | .uniqueItems b, v => match v with | .arr xs => if !b || allDistinct xs then some {} else none | _ => some {}
    | .items pre rest, v =>
      itemsResult (fun xs => validatePrefix pre xs) pre.length
        (match rest with | some s => some (fun x => (validate s x).isSome) | none => none) v
    | .contains s minC maxC, v => containsResult (fun x => (validate s x).isSome) minC maxC v
    | .props ps additional, v =>
      propsResult (fun ms => validateProps ps ms) (propNames ps)
        (match additional with | some s => some (fun x => (validate s x).isSome) | none => none) v
    | .required ks, v => match v with
      | .obj ms => if ks.all (fun k => (Assoc.find k ms).isSome) then some {} else none
      | _ => some {}
    | .minProperties n, v => match v with | .obj ms => if n ≤ ms.length then some {} else none | _ => some {}
    | .maxProperties n, v => match v with | .obj ms => if ms.length ≤ n then some {} else none | _ => some {}
    | .propertyNames s, v => match v with
      | .obj ms => if ms.all (fun m => (validate s (.str m.1)).isSome) then some {} else none
      | _ => some {}
    | .dependentRequired deps, v => match v with
      | .obj ms => if deps.all (fun d => (Assoc.find d.1 ms).isNone || d.2.all (fun k => (Assoc.find k ms).isSome)) then some {} else none
      | _ => some {}
    | .allOf ss, v => allAnn (validateEach ss v)
    | .anyOf ss, v => let rs := validateEach ss v; if rs.any (·.isSome) then some (someAnn rs) else none
    | .oneOf ss, v => let rs := validateEach ss v; if (rs.filter (·.isSome)).length = 1 then some (someAnn rs) else none
    | .not s, v => if (validate s v).isSome then none else some {}
    | .cond i t e, v =>
      condResult (validate i v) (match t with | some ts => some (validate ts v) | none => none)
        (match e with | some es => some (validate es v) | none => none)
  def validateEach : List Schema → JVal → List (Option Ann)
    | [], _ => []
    | s :: ss, v => validate s v :: validateEach ss v
  /-- `prefixItems`: element i against schema i, as far as both go -/
  def validatePrefix : List Schema → List JVal → Bool
    | [], _ => true
    | _ :: _, [] => true
    | s :: ss, x :: xs => (validate s x).isSome && validatePrefix ss xs
  def validateProps : List PropS → List (Bytes × JVal) → Bool
    | [], _ => true
    | .mk name s :: ps, ms =>
      (match Assoc.find name ms with
       | none => true
       | some x => (validate s x).isSome) && validateProps ps ms
  def propNames : List PropS → List Bytes
    | [] => []
    | .mk name _ :: ps => name :: propNames ps
end

def valid (s : Schema) (v : JVal) : Bool := (validate s v).isSome

end JV.Spec.JsonSchema
