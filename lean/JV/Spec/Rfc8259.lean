/-
  JV.Spec.Rfc8259 — the JSON grammar of RFC 8259 as a reference parser, written from the RFC:

     JSON-text = ws value ws
     value     = false / null / true / object / array / number / string
     object    = "{" ws [ member *( ws "," ws member ) ] ws "}"      member = string ws ":" ws value
     array     = "[" ws [ value *( ws "," ws value ) ] ws "]"
     number    = [ "-" ] int [ frac ] [ exp ]      int = "0" / ( %x31-39 *DIGIT )
     string    = %x22 *char %x22 ; char = unescaped / "\" ( %x22 / "\" / "/" / b / f / n / r / t / uXXXX )
     ws        = *( %x20 / %x09 / %x0A / %x0D )

  plus the two relaxations jsoncons offers as options (one production each):
     comments       : ws may also contain  "/*" … "*/"  and  "//" … end of line
     trailing comma : a "," may precede the closing "}" or "]" of a non-empty container
  and a nesting limit. Numbers are kept as their literal text (their value is assigned by the
  number theorems of C04 / exact arithmetic); strings are decoded to UTF-8, `\uXXXX` escapes denote
  UTF-16 code units, a high/low surrogate pair denotes one scalar value; an unpaired surrogate
  escape denotes no scalar value and the text is given no value (`none`), as is text whose strings
  are not valid UTF-8.
-/
import JV.Basic.JVal
namespace JV.Spec.Rfc8259

inductive JT where
  | null
  | bool (b : Bool)
  | num (lit : Bytes)
  | str (s : Bytes)
  | arr (xs : List JT)
  | obj (ms : List (Bytes × JT))     -- document order, duplicates kept
  deriving Repr, Inhabited

structure Flags where
  comments : Bool
  trailingComma : Bool
  maxDepth : Nat

def isWs (c : Nat) : Bool := c = 32 || c = 9 || c = 10 || c = 13
def isDigit (c : Nat) : Bool := 48 ≤ c && c ≤ 57

/-- skip to the end of a `//` comment -/
def skipLine : Bytes → Bytes
  | [] => []
  | c :: cs => if c = 10 || c = 13 then c :: cs else skipLine cs

/-- skip past the `*/` of a block comment; `none` if unterminated -/
def skipBlock : Bytes → Option Bytes
  | [] => none
  | [_] => none
  | 42 :: 47 :: cs => some cs
  | _ :: c :: cs => skipBlock (c :: cs)

/-- `ws` (with comments when allowed); `none` only for an unterminated block comment -/
def skipWs (comments : Bool) : Nat → Bytes → Option Bytes
  | 0, s => some s
  | _, [] => some []
  | fuel + 1, c :: cs =>
    if isWs c then skipWs comments fuel cs
    else if comments && c = 47 then
      match cs with
      | 47 :: rest => skipWs comments fuel (skipLine rest)
      | 42 :: rest => match skipBlock rest with
        | none => none
        | some r => skipWs comments fuel r
      | _ => some (c :: cs)
    else some (c :: cs)

def takeDigits : Bytes → Bytes × Bytes
  | [] => ([], [])
  | c :: cs => if isDigit c then let r := takeDigits cs; (c :: r.1, r.2) else ([], c :: cs)

/-- `number`; returns the literal and the rest -/
def parseNumber (s : Bytes) : Option (Bytes × Bytes) :=
  let (sign, s1) := match s with
    | 45 :: r => ([45], r)
    | _ => ([], s)
  match s1 with
  | [] => none
  | c :: cs =>
    let intPart : Option (Bytes × Bytes) :=
      if c = 48 then some ([48], cs)
      else if 49 ≤ c ∧ c ≤ 57 then let r := takeDigits cs; some (c :: r.1, r.2)
      else none
    match intPart with
    | none => none
    | some (ip, s2) =>
      let frac : Option (Bytes × Bytes) :=
        match s2 with
        | 46 :: r => let d := takeDigits r; if d.1 = [] then none else some (46 :: d.1, d.2)
        | _ => some ([], s2)
      match frac with
      | none => none
      | some (fp, s3) =>
        let ex : Option (Bytes × Bytes) :=
          match s3 with
          | e :: r =>
            if e = 101 || e = 69 then
              let (sg, r1) := match r with
                | 43 :: r' => ([43], r')
                | 45 :: r' => ([45], r')
                | _ => ([], r)
              let d := takeDigits r1
              if d.1 = [] then none else some (e :: sg ++ d.1, d.2)
            else some ([], s3)
          | [] => some ([], s3)
        match ex with
        | none => none
        | some (ep, s4) => some (sign ++ ip ++ fp ++ ep, s4)

def hexVal (c : Nat) : Option Nat :=
  if 48 ≤ c ∧ c ≤ 57 then some (c - 48)
  else if 97 ≤ c ∧ c ≤ 102 then some (c - 87)
  else if 65 ≤ c ∧ c ≤ 70 then some (c - 55)
  else none

def hex4 : Bytes → Option (Nat × Bytes)
  | a :: b :: c :: d :: rest =>
    match hexVal a, hexVal b, hexVal c, hexVal d with
    | some w, some x, some y, some z => some (((w * 16 + x) * 16 + y) * 16 + z, rest)
    | _, _, _, _ => none
  | _ => none

/-- UTF-8 encoding of a scalar value (RFC 3629) -/
def utf8Encode (cp : Nat) : Bytes :=
  if cp < 0x80 then [cp]
  else if cp < 0x800 then [0xC0 + cp / 64, 0x80 + cp % 64]
  else if cp < 0x10000 then [0xE0 + cp / 4096, 0x80 + cp / 64 % 64, 0x80 + cp % 64]
  else [0xF0 + cp / 262144, 0x80 + cp / 4096 % 64, 0x80 + cp / 64 % 64, 0x80 + cp % 64]

/-- well-formed UTF-8 (RFC 3629 §4: no overlongs, no surrogates, ≤ U+10FFFF) -/
def validUtf8 : Bytes → Bool
  | [] => true
  | a :: rest =>
    if a < 0x80 then validUtf8 rest
    else if 0xC2 ≤ a ∧ a ≤ 0xDF then
      match rest with
      | b :: r => (0x80 ≤ b && b ≤ 0xBF) && validUtf8 r
      | _ => false
    else if 0xE0 ≤ a ∧ a ≤ 0xEF then
      match rest with
      | b :: c :: r =>
        let lo := if a = 0xE0 then 0xA0 else 0x80
        let hi := if a = 0xED then 0x9F else 0xBF
        (lo ≤ b && b ≤ hi) && (0x80 ≤ c && c ≤ 0xBF) && validUtf8 r
      | _ => false
    else if 0xF0 ≤ a ∧ a ≤ 0xF4 then
      match rest with
      | b :: c :: d :: r =>
        let lo := if a = 0xF0 then 0x90 else 0x80
        let hi := if a = 0xF4 then 0x8F else 0xBF
        (lo ≤ b && b ≤ hi) && (0x80 ≤ c && c ≤ 0xBF) && (0x80 ≤ d && d ≤ 0xBF) && validUtf8 r
      | _ => false
    else false

/-- the characters of a string after the opening quote: decoded bytes and the rest after the closing quote -/
def parseChars : Nat → Bytes → Option (Bytes × Bytes)
  | 0, _ => none
  | _, [] => none
  | fuel + 1, c :: cs =>
    if c = 34 then some ([], cs)
    else if c < 32 then none
    else if c = 92 then
      match cs with
      | [] => none
      | e :: r =>
        let simple (b : Nat) : Option (Bytes × Bytes) := (parseChars fuel r).map fun p => (b :: p.1, p.2)
        if e = 34 then simple 34 else if e = 92 then simple 92 else if e = 47 then simple 47
        else if e = 98 then simple 8 else if e = 102 then simple 12 else if e = 110 then simple 10
        else if e = 114 then simple 13 else if e = 116 then simple 9
        else if e = 117 then
          match hex4 r with
          | none => none
          | some (u, r1) =>
            if 0xD800 ≤ u ∧ u ≤ 0xDBFF then
              match r1 with
              | 92 :: 117 :: r2 =>
                match hex4 r2 with
                | none => none
                | some (lo, r3) =>
                  if 0xDC00 ≤ lo ∧ lo ≤ 0xDFFF then
                    (parseChars fuel r3).map fun p => (utf8Encode (0x10000 + (u - 0xD800) * 1024 + (lo - 0xDC00)) ++ p.1, p.2)
                  else none
              | _ => none
            else if 0xDC00 ≤ u ∧ u ≤ 0xDFFF then none
            else (parseChars fuel r1).map fun p => (utf8Encode u ++ p.1, p.2)
        else none
    else (parseChars fuel cs).map fun p => (c :: p.1, p.2)

def parseString (s : Bytes) : Option (Bytes × Bytes) :=
  match s with
  | 34 :: cs =>
    match parseChars (cs.length + 1) cs with
    | none => none
    | some (b, rest) => if validUtf8 b then some (b, rest) else none
  | _ => none

def startsWith (p s : Bytes) : Option Bytes :=
  if p.isPrefixOf s then some (s.drop p.length) else none

mutual
  /-- `value` at nesting depth `depth` (number of enclosing containers) -/
  def parseValue (fl : Flags) : Nat → Nat → Bytes → Option (JT × Bytes)
    | 0, _, _ => none
    | _, _, [] => none
    | fuel + 1, depth, c :: cs =>
      if c = 123 then
        if depth + 1 > fl.maxDepth then none
        else match skipWs fl.comments (cs.length + 1) cs with
          | none => none
          | some (125 :: rest) => some (.obj [], rest)
          | some s1 => (parseMembers fl fuel (depth + 1) s1).map fun p => (.obj p.1, p.2)
      else if c = 91 then
        if depth + 1 > fl.maxDepth then none
        else match skipWs fl.comments (cs.length + 1) cs with
          | none => none
          | some (93 :: rest) => some (.arr [], rest)
          | some s1 => (parseElems fl fuel (depth + 1) s1).map fun p => (.arr p.1, p.2)
      else if c = 34 then (parseString (c :: cs)).map fun p => (.str p.1, p.2)
      else if c = 116 then (startsWith [114, 117, 101] cs).map fun r => (.bool true, r)
      else if c = 102 then (startsWith [97, 108, 115, 101] cs).map fun r => (.bool false, r)
      else if c = 110 then (startsWith [117, 108, 108] cs).map fun r => (.null, r)
      else (parseNumber (c :: cs)).map fun p => (.num p.1, p.2)
  /-- `value *( ws "," ws value ) ws "]"`, positioned at the first value -/
  def parseElems (fl : Flags) : Nat → Nat → Bytes → Option (List JT × Bytes)
    | 0, _, _ => none
    | fuel + 1, depth, s =>
      match parseValue fl fuel depth s with
      | none => none
      | some (v, s1) =>
        match skipWs fl.comments (s1.length + 1) s1 with
        | some (93 :: rest) => some ([v], rest)
        | some (44 :: s2) =>
          match skipWs fl.comments (s2.length + 1) s2 with
          | none => none
          | some (93 :: rest) => if fl.trailingComma then some ([v], rest) else none
          | some s3 => (parseElems fl fuel depth s3).map fun p => (v :: p.1, p.2)
        | _ => none
  def parseMembers (fl : Flags) : Nat → Nat → Bytes → Option (List (Bytes × JT) × Bytes)
    | 0, _, _ => none
    | fuel + 1, depth, s =>
      match parseString s with
      | none => none
      | some (k, s1) =>
        match skipWs fl.comments (s1.length + 1) s1 with
        | some (58 :: s2) =>
          match skipWs fl.comments (s2.length + 1) s2 with
          | none => none
          | some s3 =>
            match parseValue fl fuel depth s3 with
            | none => none
            | some (v, s4) =>
              match skipWs fl.comments (s4.length + 1) s4 with
              | some (125 :: rest) => some ([(k, v)], rest)
              | some (44 :: s5) =>
                match skipWs fl.comments (s5.length + 1) s5 with
                | none => none
                | some (125 :: rest) => if fl.trailingComma then some ([(k, v)], rest) else none
                | some s6 => (parseMembers fl fuel depth s6).map fun p => ((k, v) :: p.1, p.2)
              | _ => none
        | _ => none
end

/-- `JSON-text = ws value ws` -/
def parseText (fl : Flags) (s : Bytes) : Option JT :=
  match skipWs fl.comments (s.length + 1) s with
  | none => none
  | some s1 =>
    match parseValue fl (s1.length + 1) 0 s1 with
    | none => none
    | some (v, s2) =>
      match skipWs fl.comments (s2.length + 1) s2 with
      | some [] => some v
      | _ => none

end JV.Spec.Rfc8259
