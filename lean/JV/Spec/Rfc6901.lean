/-
  JV.Spec.Rfc6901 — JSON Pointer, written from RFC 6901 (§3 syntax, §4 evaluation) and, for the
  modifying operations, from the meaning RFC 6902 §4 gives to "add / replace / remove at a location".
  Pure: a failing operation yields `none` and there is no "document after the error".

     json-pointer    = *( "/" reference-token )
     reference-token = *( unescaped / escaped )
     escaped         = "~" ( "0" / "1" )          ; ~0 is '~', ~1 is '/'
     array-index     = %x30 / ( %x31-39 *(%x30-39) )   ; no leading zeros; "-" = past the end
-/
import JV.Basic.JVal
namespace JV.Spec.Rfc6901
open JV Assoc

/-- unescape one reference token; `none` if a `~` is not followed by `0` or `1` -/
def unescape : Bytes → Option Bytes
  | [] => some []
  | 126 :: 48 :: cs => (unescape cs).map (126 :: ·)
  | 126 :: 49 :: cs => (unescape cs).map (47 :: ·)
  | 126 :: _ => none
  | c :: cs => (unescape cs).map (c :: ·)

/-- split at every '/' (always at least one piece) -/
def splitSlash : Bytes → List Bytes
  | [] => [[]]
  | c :: cs =>
    match splitSlash cs with
    | [] => [[]]            -- unreachable
    | p :: ps => if c = 47 then [] :: p :: ps else (c :: p) :: ps

def mapM' {α β : Type} (f : α → Option β) : List α → Option (List β)
  | [] => some []
  | x :: xs => match f x, mapM' f xs with
    | some y, some ys => some (y :: ys)
    | _, _ => none

/-- the reference tokens a pointer string denotes; `none` = not a JSON Pointer -/
def tokens : Bytes → Option (List Bytes)
  | [] => some []
  | c :: cs => if c = 47 then mapM' unescape (splitSlash cs) else none

def Valid (s : Bytes) : Prop := (tokens s).isSome = true

def isDigit (c : Nat) : Bool := 48 ≤ c && c ≤ 57

def digitsVal : Bytes → Nat → Nat
  | [], acc => acc
  | c :: cs, acc => digitsVal cs (acc * 10 + (c - 48))

/-- array-index syntax: "0", or a non-zero digit followed by digits -/
def arrayIndex (tok : Bytes) : Option Nat :=
  match tok with
  | [] => none
  | c :: cs =>
    if c = 48 then (if cs = [] then some 0 else none)
    else if 49 ≤ c ∧ c ≤ 57 ∧ cs.all isDigit then some (digitsVal (c :: cs) 0) else none

/-- §4 evaluation -/
def eval : JVal → List Bytes → Option JVal
  | v, [] => some v
  | .arr xs, tok :: rest =>
    match arrayIndex tok with
    | none => none
    | some i => match xs[i]? with
      | none => none
      | some x => eval x rest
  | .obj ms, tok :: rest =>
    match find tok ms with
    | none => none
    | some x => eval x rest
  | _, _ :: _ => none

inductive Op where
  | add (v : JVal) | addIfAbsent (v : JVal) | replace (v : JVal) | remove

/-- `Target[Name] = Value` on a canonical (sorted, unique) member list -/
def assign (k : Bytes) (v : JVal) : List (Bytes × JVal) → List (Bytes × JVal)
  | [] => [(k, v)]
  | (k', v') :: ms =>
    if k' = k then (k, v) :: ms
    else if keyLt k' k then (k', v') :: assign k v ms
    else (k, v) :: (k', v') :: ms

/-- the operation at the parent container, last token `tok` -/
def atParent (op : Op) (cur : JVal) (tok : Bytes) : Option JVal :=
  match cur with
  | .arr xs =>
    match op with
    | .add v | .addIfAbsent v =>
      if tok = [45] then some (.arr (xs ++ [v]))
      else match arrayIndex tok with
        | none => none
        | some i => if i ≤ xs.length then some (.arr (xs.take i ++ v :: xs.drop i)) else none
    | .replace v =>
      match arrayIndex tok with
      | none => none
      | some i => if i < xs.length then some (.arr (xs.set i v)) else none
    | .remove =>
      match arrayIndex tok with
      | none => none
      | some i => if i < xs.length then some (.arr (xs.eraseIdx i)) else none
  | .obj ms =>
    match op with
    | .add v => some (.obj (assign tok v ms))
    | .addIfAbsent v => if (find tok ms).isSome then none else some (.obj (assign tok v ms))
    | .replace v => if (find tok ms).isSome then some (.obj (assign tok v ms)) else none
    | .remove => if (find tok ms).isSome then some (.obj (erase tok ms)) else none
  | _ => none

/-- apply `op` at the location `tok :: rest` (non-empty pointer) -/
def updateAt (op : Op) : JVal → Bytes → List Bytes → Option JVal
  | cur, tok, [] => atParent op cur tok
  | .arr xs, tok, t2 :: rest =>
    match arrayIndex tok with
    | none => none
    | some i => match xs[i]? with
      | none => none
      | some x => (updateAt op x t2 rest).map fun x' => .arr (xs.set i x')
  | .obj ms, tok, t2 :: rest =>
    match find tok ms with
    | none => none
    | some x => (updateAt op x t2 rest).map fun x' => .obj (assign tok x' ms)
  | _, _, _ :: _ => none

def update (op : Op) (root : JVal) : List Bytes → Option JVal
  | [] =>
    match op with
    | .add v | .addIfAbsent v | .replace v => some v
    | .remove => none
  | tok :: rest => updateAt op root tok rest

end JV.Spec.Rfc6901
