/-
  JV.Spec.Cbor — reference decoder for CBOR (RFC 8949), written from the RFC:
  §3 (initial byte = major type ‖ additional information; argument widths 0/1/2/4/8 bytes, 28–30
  reserved, 31 = indefinite length only for majors 2–5 and the "break" 0xFF only inside indefinite
  items; indefinite strings are sequences of definite chunks of the same major type, each text chunk valid UTF-8 on its own: §3.2.3), Appendix C
  (well-formedness) and §3.4 (tags), followed by the mapping to the jsoncons data model documented in
  doc/ref/cbor/cbor.md (tags 0, 1, 2, 3, 21–23, 32–34; other tags ignored; undefined ↦ null/undefined;
  float32 widened to double; half kept as half).

  Three outcomes: a value, ill-formed (the input must be rejected), or `unjudged` — well-formed input
  whose jsoncons rendering is specified by jsoncons alone and not transcribed here (tags 4, 5, 25, 256,
  64–87, non-text map keys, unassigned simple values, negative integers below -2^63 under tag 1).
-/
import JV.Basic.JVal
import JV.Spec.Rfc8259
namespace JV.Spec.Cbor
open JV

inductive BV where
  | null | undef
  | bool (b : Bool)
  | int (i : Int) (tag : String)
  | half (bits : Nat)
  | dbl (bits : Nat) (tag : String)
  | str (s : Bytes) (tag : String)
  | bytes (b : Bytes) (tag : String)
  | arr (xs : List BV)
  | map (ms : List (Bytes × BV))
  deriving Repr, Inhabited

inductive Res (α : Type) where
  | ok (v : α) (rest : Bytes)
  | illformed
  | unjudged
  deriving Repr

def beVal : Bytes → Nat
  | [] => 0
  | b :: bs => b * 256 ^ bs.length + beVal bs

/-- the argument of a head with additional information `ai` (0–27) -/
def readArg (ai : Nat) (s : Bytes) : Option (Nat × Bytes) :=
  if ai < 24 then some (ai, s)
  else
    let w := if ai = 24 then 1 else if ai = 25 then 2 else if ai = 26 then 4 else if ai = 27 then 8 else 0
    if w = 0 then none
    else if s.length < w then none
    else some (beVal (s.take w), s.drop w)

/-- IEEE 754 binary32 → binary64 bit pattern (exact widening) -/
def f32ToF64 (b : Nat) : Nat :=
  let sign := b / 2147483648
  let e := b / 8388608 % 256
  let m := b % 8388608
  if e = 255 then sign * 2 ^ 63 + 2047 * 2 ^ 52 + m * 2 ^ 29
  else if e = 0 then
    if m = 0 then sign * 2 ^ 63
    else
      -- subnormal: value = m * 2^-149; normalise
      let k := Nat.log2 m                      -- position of the leading one (0..22)
      let e64 := 1023 - 126 - (23 - k)
      sign * 2 ^ 63 + e64 * 2 ^ 52 + (m - 2 ^ k) * 2 ^ (52 - k)
  else sign * 2 ^ 63 + (e + 896) * 2 ^ 52 + m * 2 ^ 29

/-- IEEE 754 binary16 → binary64 bit pattern (exact widening; RFC 8949 Appendix D). NaN payloads are moved to the top of the fraction. -/
def f16ToF64 (b : Nat) : Nat :=
  let sign := b / 32768
  let e := b / 1024 % 32
  let m := b % 1024
  if e = 31 then sign * 2 ^ 63 + 2047 * 2 ^ 52 + m * 2 ^ 42
  else if e = 0 then
    if m = 0 then sign * 2 ^ 63
    else
      -- subnormal: value = m * 2^-24; normalise
      let k := Nat.log2 m                      -- position of the leading one (0..9)
      sign * 2 ^ 63 + (k + 999) * 2 ^ 52 + (m - 2 ^ k) * 2 ^ (52 - k)
  else sign * 2 ^ 63 + (e + 1008) * 2 ^ 52 + m * 2 ^ 42

def f16IsNaN (b : Nat) : Bool := b / 1024 % 32 = 31 ∧ b % 1024 ≠ 0

def natToDec (n : Nat) : Bytes := (toString n).toUTF8.toList.map (·.toNat)

/-- definite-length chunks of major type `major` up to the break -/
def readChunks (major : Nat) : Nat → Bytes → Res Bytes
  | 0, _ => .illformed
  | _, [] => .illformed
  | fuel + 1, ib :: s =>
    if ib = 0xFF then .ok [] s
    else if ib / 32 ≠ major then .illformed
    else if ib % 32 = 31 then .illformed           -- chunks must be definite
    else match readArg (ib % 32) s with
      | none => .illformed
      | some (n, s1) =>
        if s1.length < n then .illformed
        else if major = 3 ∧ Rfc8259.validUtf8 (s1.take n) = false then .illformed   -- §3.2.3: every text chunk is itself well-formed UTF-8
        else match readChunks major fuel (s1.drop n) with
          | .ok more rest => .ok (s1.take n ++ more) rest
          | r => r

def tagName (t : Nat) (isText : Bool) : Option String :=
  if isText then
    if t = 0 then some "datetime" else if t = 32 then some "uri" else if t = 33 then some "base64url" else if t = 34 then some "base64" else none
  else
    -- a byte string under any other tag is handed over as an "ext" value carrying that tag number
    if t = 21 then some "base64url" else if t = 22 then some "base64" else if t = 23 then some "base16" else some "ext"

mutual
  /-- one data item; `tag` = the innermost relevant tag seen so far (jsoncons keeps the last) -/
  def item : Nat → Option Nat → Bytes → Res BV
    | 0, _, _ => .illformed
    | _, _, [] => .illformed
    | fuel + 1, tag, ib :: s =>
      let major := ib / 32
      let ai := ib % 32
      if major = 7 then
        if ai = 20 then .ok (.bool false) s
        else if ai = 21 then .ok (.bool true) s
        else if ai = 22 then .ok .null s
        else if ai = 23 then .ok .undef s
        else if ai = 25 then (match readArg 25 s with | none => .illformed | some (b, r) => .ok (.half b) r)
        else if ai = 26 then (match readArg 26 s with
          | none => .illformed
          | some (b, r) => .ok (.dbl (f32ToF64 b) (if tag = some 1 then "epoch_second" else "")) r)
        else if ai = 27 then (match readArg 27 s with
          | none => .illformed
          | some (b, r) => .ok (.dbl b (if tag = some 1 then "epoch_second" else "")) r)
        else if ai = 31 then .illformed                 -- break outside an indefinite item
        else if ai ≥ 28 then .illformed
        else if ai = 24 then (match s with
          | [] => .illformed
          | v :: _ => if v < 32 then .illformed else .unjudged)
        else .unjudged                                  -- unassigned simple values 0..19
      else if ai ≥ 28 ∧ ai ≤ 30 then .illformed
      else if ai = 31 then
        if major = 2 ∨ major = 3 then
          match readChunks major fuel s with
          | .ok b rest =>
            if major = 3 then
              if Rfc8259.validUtf8 b then .ok (.str b ((tag.bind (tagName · true)).getD "")) rest else .illformed
            else
              if tag = some 2 ∨ tag = some 3 then .unjudged
              else .ok (.bytes b ((tag.bind (tagName · false)).getD "")) rest
          | .illformed => .illformed
          | .unjudged => .unjudged
        else if major = 4 then (match tag with
          | some 4 => .unjudged | some 5 => .unjudged
          | _ => match itemsIndef fuel s with
            | .ok xs rest => .ok (.arr xs) rest
            | .illformed => .illformed
            | .unjudged => .unjudged)
        else if major = 5 then (match membersIndef fuel s with
            | .ok ms rest => .ok (.map ms) rest
            | .illformed => .illformed
            | .unjudged => .unjudged)
        else .illformed                                 -- 0x1f, 0x3f, 0xdf
      else
        match readArg ai s with
        | none => .illformed
        | some (n, s1) =>
          if major = 0 then .ok (.int n (if tag = some 1 then "epoch_second" else "")) s1
          else if major = 1 then
            -- -1-n below -2^63 has no int64 representation: reported as the true integer; the oracle accepts
            -- `number_too_large` or a big-number rendering, never a wrapped int64
            if n ≥ 2 ^ 63 then (if tag = some 1 then .unjudged else .ok (.int (-1 - (n : Int)) "") s1)
            else .ok (.int (-1 - (n : Int)) (if tag = some 1 then "epoch_second" else "")) s1
          else if major = 2 then
            if s1.length < n then .illformed
            else
              let b := s1.take n
              if tag = some 2 then .ok (.str (natToDec (beVal b)) "bigint") (s1.drop n)
              else if tag = some 3 then .ok (.str (45 :: natToDec (beVal b + 1)) "bigint") (s1.drop n)
              else .ok (.bytes b ((tag.bind (tagName · false)).getD "")) (s1.drop n)
          else if major = 3 then
            if s1.length < n then .illformed
            else if Rfc8259.validUtf8 (s1.take n) then .ok (.str (s1.take n) ((tag.bind (tagName · true)).getD "")) (s1.drop n)
            else .illformed
          else if major = 4 then (match tag with
            | some 4 => .unjudged | some 5 => .unjudged
            | _ => match items fuel n s1 with
              | .ok xs rest => .ok (.arr xs) rest
              | .illformed => .illformed
              | .unjudged => .unjudged)
          else if major = 5 then (match members fuel n s1 with
              | .ok ms rest => .ok (.map ms) rest
              | .illformed => .illformed
              | .unjudged => .unjudged)
          else
            -- major 6: a tag; typed arrays, stringref and friends are jsoncons-specific renderings
            if n = 25 ∨ n = 256 ∨ (64 ≤ n ∧ n ≤ 87) ∨ n = 40 ∨ n = 1040 then .unjudged
            else item fuel (some n) s1
  def items : Nat → Nat → Bytes → Res (List BV)
    | _, 0, s => .ok [] s
    | 0, _ + 1, _ => .illformed
    | fuel + 1, n + 1, s =>
      match item fuel none s with
      | .ok x s1 => (match items fuel n s1 with
        | .ok xs rest => .ok (x :: xs) rest
        | r => r)
      | .illformed => .illformed
      | .unjudged => (match items fuel n [] with | _ => .unjudged)
  def itemsIndef : Nat → Bytes → Res (List BV)
    | 0, _ => .illformed
    | _, [] => .illformed
    | fuel + 1, ib :: s =>
      if ib = 0xFF then .ok [] s
      else match item fuel none (ib :: s) with
        | .ok x s1 => (match itemsIndef fuel s1 with
          | .ok xs rest => .ok (x :: xs) rest
          | r => r)
        | .illformed => .illformed
        | .unjudged => .unjudged
  def members : Nat → Nat → Bytes → Res (List (Bytes × BV))
    | _, 0, s => .ok [] s
    | 0, _ + 1, _ => .illformed
    | fuel + 1, n + 1, s =>
      match item fuel none s with
      | .ok (.str k _) s1 =>
        (match item fuel none s1 with
        | .ok v s2 => (match members fuel n s2 with
          | .ok ms rest => .ok ((k, v) :: ms) rest
          | r => r)
        | .illformed => .illformed
        | .unjudged => .unjudged)
      | .ok _ _ => .unjudged                       -- non-text key: jsoncons renders it as JSON text
      | .illformed => .illformed
      | .unjudged => .unjudged
  def membersIndef : Nat → Bytes → Res (List (Bytes × BV))
    | 0, _ => .illformed
    | _, [] => .illformed
    | fuel + 1, ib :: s =>
      if ib = 0xFF then .ok [] s
      else match item fuel none (ib :: s) with
        | .ok (.str k _) s1 =>
          (match item fuel none s1 with
          | .ok v s2 => (match membersIndef fuel s2 with
            | .ok ms rest => .ok ((k, v) :: ms) rest
            | r => r)
          | .illformed => .illformed
          | .unjudged => .unjudged)
        | .ok _ _ => .unjudged
        | .illformed => .illformed
        | .unjudged => .unjudged
end

/-- decode exactly one data item (trailing bytes are left for the caller) -/
def decode (s : Bytes) : Res BV := item (2 * s.length + 2) none s

end JV.Spec.Cbor
