/-
  JV.Spec.Rfc6902 — JSON Patch, written from RFC 6902 §4 on top of JV.Spec.Rfc6901.
  Pure and all-or-nothing by construction: any failing operation makes the whole patch `none`.
-/
import JV.Spec.Rfc6901
namespace JV.Spec.Rfc6902
open JV Assoc Spec.Rfc6901

inductive Op where
  | add (path : List Bytes) (v : JVal)
  | remove (path : List Bytes)
  | replace (path : List Bytes) (v : JVal)
  | move (from_ path : List Bytes)
  | copy (from_ path : List Bytes)
  | test (path : List Bytes) (v : JVal)

def str? : JVal → Option Bytes
  | .str s => some s
  | _ => none

/-- ASCII of the member and operation names -/
def key : String → Bytes
  | "op" => [111, 112]
  | "path" => [112, 97, 116, 104]
  | "from" => [102, 114, 111, 109]
  | "value" => [118, 97, 108, 117, 101]
  | "add" => [97, 100, 100]
  | "remove" => [114, 101, 109, 111, 118, 101]
  | "replace" => [114, 101, 112, 108, 97, 99, 101]
  | "move" => [109, 111, 118, 101]
  | "copy" => [99, 111, 112, 121]
  | "test" => [116, 101, 115, 116]
  | _ => []

/-- §4: an operation object has exactly one "op" member naming one of six operations, a "path"
    member that is a JSON Pointer, and the operation's own members -/
def decode (operation : JVal) : Option Op :=
  match operation with
  | .obj om => do
    let op ← (find (key "op") om).bind str?
    let path ← ((find (key "path") om).bind str?).bind tokens
    if op = key "add" then (find (key "value") om).map (Op.add path)
    else if op = key "remove" then some (Op.remove path)
    else if op = key "replace" then (find (key "value") om).map (Op.replace path)
    else if op = key "move" then (((find (key "from") om).bind str?).bind tokens).map (Op.move · path)
    else if op = key "copy" then (((find (key "from") om).bind str?).bind tokens).map (Op.copy · path)
    else if op = key "test" then (find (key "value") om).map (Op.test path)
    else none
  | _ => none

def applyOp (d : JVal) : Op → Option JVal
  | .add p v => update (.add v) d p
  | .remove p => update .remove d p
  | .replace p v => update (.replace v) d p
  | .move f p => do
    let v ← eval d f
    let d1 ← update .remove d f
    update (.add v) d1 p
  | .copy f p => do
    let v ← eval d f
    update (.add v) d p
  | .test p v => do
    let x ← eval d p
    if x == v then some d else none

def applyOps : JVal → List JVal → Option JVal
  | d, [] => some d
  | d, o :: os => do
    let op ← decode o
    let d1 ← applyOp d op
    applyOps d1 os

def applyPatch (d patch : JVal) : Option JVal :=
  match patch with
  | .arr ops => applyOps d ops
  | _ => none

end JV.Spec.Rfc6902
