/-
  JV.Spec.JMESPath — a reference interpreter for JMESPath, written from the JMESPath specification (jmespath.org
  specification: grammar, "Projections", "Pipe Expressions", "Or/And/Not Expressions", "Comparison", "MultiSelect",
  "Built-in Functions"), independent of jsoncons' sources. Numbers are integers (the correspondence generator keeps
  documents and literals integral; an evaluation that would leave the integers is reported `unjudged`).

  An expression is written in chain form: a start followed by steps; a projection step (`[*]`, `.*`, slice,
  `[?…]`) applies the rest of the chain to every element and drops `null` results, which is exactly the scoping rule of
  the specification ("the RHS of a projection is everything up to the next pipe or the end of the bracketed/parenthesised
  expression").
-/
import JV.Basic.JVal
import JV.Spec.Rfc9535
namespace JV.Spec.JMESPath
open JV

inductive Err where
  | invalidType | invalidArity | unknownFunction | invalidValue | unjudged
  deriving DecidableEq, Repr

inductive CmpOp where
  | eq | ne | lt | le | gt | ge
  deriving DecidableEq, Repr

inductive Fn where
  | abs | contains | endsWith | startsWith | join | keys | length | map | max | min | maxBy | minBy | merge | notNull
  | reverse | sort | sortBy | sum | toArray | toNumber | toString | type | values | unknown
  deriving DecidableEq, Repr

structure Slice where
  start : Option Int
  stop : Option Int
  step : Int
  deriving Repr

mutual
  inductive Expr where
    | chain (start : Start) (steps : List Step)
    | pipe (a b : Expr)
    | or (a b : Expr)
    | and (a b : Expr)
    | not (a : Expr)
    | cmp (op : CmpOp) (a b : Expr)
    | flat (a : Expr) (steps : List Step)      -- `a[]` followed by the steps projected over the flattened list
  inductive Start where
    | ident (k : Bytes)
    | current
    | lit (v : JVal)
    | paren (e : Expr)
    | call (f : Fn) (args : List Arg)
    | mlist (es : List Expr)
    | mhash (kvs : List KV)
  inductive Step where
    | field (k : Bytes)
    | index (i : Int)
    | star
    | objStar
    | slice (s : Slice)
    | filter (c : Expr)
    | mlist (es : List Expr)
    | mhash (kvs : List KV)
    | call (f : Fn) (args : List Arg)
  inductive Arg where
    | val (e : Expr)
    | ref (e : Expr)
  inductive KV where
    | mk (k : Bytes) (e : Expr)
end

/-! ### values -/

def truthy : JVal → Bool
  | .null => false
  | .bool b => b
  | .str [] => false
  | .arr [] => false
  | .obj [] => false
  | _ => true

def field (v : JVal) (k : Bytes) : JVal :=
  match v with
  | .obj ms => (Assoc.find k ms).getD .null
  | _ => .null

def index (v : JVal) (i : Int) : JVal :=
  match v with
  | .arr xs =>
    let n : Int := xs.length
    let j := if i < 0 then n + i else i
    if 0 ≤ j ∧ j < n then xs.getD j.toNat .null else .null
  | _ => .null

/-- the indices of a slice: the RFC 9535 / Python rule, as an enumeration (start bound, then step by step inside the bounds) -/
def sliceIndices (s : Slice) (n : Nat) : List Nat :=
  let b := Rfc9535.bounds s.start s.stop s.step n
  if s.step > 0 then
    (List.range n).filter fun (x : Nat) => decide (b.lower ≤ (x : Int) ∧ (x : Int) < b.upper ∧ ((x : Int) - b.lower) % s.step = 0)
  else if s.step < 0 then
    ((List.range n).filter fun (x : Nat) => decide (b.lower < (x : Int) ∧ (x : Int) ≤ b.upper ∧ (b.upper - (x : Int)) % s.step = 0)).reverse
  else []

def flatten1 : List JVal → List JVal
  | [] => []
  | .arr ys :: xs => ys ++ flatten1 xs
  | x :: xs => x :: flatten1 xs

def cmpVals (op : CmpOp) (a b : JVal) : JVal :=
  match op with
  | .eq => .bool (a == b)
  | .ne => .bool (!(a == b))
  | _ =>
    match a, b with
    | .int x, .int y => .bool (match op with | .lt => x < y | .le => x ≤ y | .gt => x > y | _ => x ≥ y)
    | _, _ => .null

/-! ### UTF-8 code points (for `length` and `reverse` of strings) -/

/-- split valid UTF-8 into code-point chunks (a continuation byte is 0x80–0xBF) -/
def codepoints : Bytes → List Bytes
  | [] => []
  | b :: rest =>
    match codepoints rest with
    | [] => [[b]]
    | c :: cs =>
      -- `c` starts with the byte following `b`; if that byte is a continuation byte, `b` belongs in front of it
      match c with
      | x :: _ => if 128 ≤ x ∧ x < 192 then (b :: c) :: cs else [b] :: c :: cs
      | [] => [b] :: cs

def isPrefixB : Bytes → Bytes → Bool
  | [], _ => true
  | _ :: _, [] => false
  | a :: as, b :: bs => a == b && isPrefixB as bs

def containsSub : Bytes → Bytes → Bool
  | hay, needle => isPrefixB needle hay || match hay with
    | [] => false
    | _ :: rest => containsSub rest needle

/-! ### functions -/

def typeName : JVal → Bytes
  | .null => "null".toUTF8.toList.map (·.toNat)
  | .bool _ => "boolean".toUTF8.toList.map (·.toNat)
  | .int _ => "number".toUTF8.toList.map (·.toNat)
  | .str _ => "string".toUTF8.toList.map (·.toNat)
  | .arr _ => "array".toUTF8.toList.map (·.toNat)
  | .obj _ => "object".toUTF8.toList.map (·.toNat)

def allInts : List JVal → Option (List Int)
  | [] => some []
  | .int i :: xs => (allInts xs).map (i :: ·)
  | _ => none

def allStrs : List JVal → Option (List Bytes)
  | [] => some []
  | .str s :: xs => (allStrs xs).map (s :: ·)
  | _ => none

def insertBy {α : Type} (le : α → α → Bool) (x : α) : List α → List α
  | [] => [x]
  | y :: ys => if le y x then y :: insertBy le x ys else x :: y :: ys

/-- stable insertion sort (equal keys keep their order) -/
def sortBy' {α : Type} (le : α → α → Bool) : List α → List α
  | [] => []
  | x :: xs => insertBy le x (sortBy' le xs)
  -- inserting from the right and placing `x` after every `y ≤ x`… stability is restored by processing in reverse:
def stableSort {α : Type} (le : α → α → Bool) (l : List α) : List α :=
  l.reverse.foldl (fun acc x => insertFront le x acc) []
where
  /-- insert `x` before the first element that is not smaller: with elements fed last-to-first this keeps equal keys in input order -/
  insertFront (le : α → α → Bool) (x : α) : List α → List α
    | [] => [x]
    | y :: ys => if le x y then x :: y :: ys else y :: insertFront le x ys

def strLe (a b : Bytes) : Bool := !keyLt b a

def parseNat : Bytes → Option Nat
  | [] => none
  | ds => if ds.all (fun c => 48 ≤ c ∧ c ≤ 57) then some (ds.foldl (fun acc c => acc * 10 + (c - 48)) 0) else none

/-- JSON number syntax restricted to integers; anything else that might still be a number is `unjudged` -/
def toNumberStr (s : Bytes) : Except Err JVal :=
  let digits := fun (ds : Bytes) => !ds.isEmpty && ds.all (fun c => 48 ≤ c ∧ c ≤ 57) && (ds.length = 1 || ds.head? ≠ some 48)
  match s with
  | 45 :: ds => if digits ds then (match parseNat ds with | some n => .ok (.int (-(n : Int))) | none => .ok .null)
                else if ds.any (fun c => c = 46 ∨ c = 101 ∨ c = 69) then .error .unjudged else .ok .null
  | ds => if digits ds then (match parseNat ds with | some n => .ok (.int n) | none => .ok .null)
          else if ds.any (fun c => c = 46 ∨ c = 101 ∨ c = 69) then .error .unjudged else .ok .null

/-- JMESPath leaves the member order of objects unspecified; the reference keeps every object it builds in key order
    (the order `jsoncons::json` iterates in), so that `keys`, `values` and `.*` are deterministic -/
def normObj (ms : List (Bytes × JVal)) : List (Bytes × JVal) :=
  ms.foldl (fun acc m => Assoc.insertSorted m.1 m.2 (Assoc.erase m.1 acc)) []

def mergeObjs : List JVal → Option (List (Bytes × JVal))
  | [] => some []
  | .obj ms :: rest => (mergeObjs rest).map fun tail =>
      -- later objects win: keep members of `ms` that no later object defines, then the rest
      ms.filter (fun m => (Assoc.find m.1 tail).isNone) ++ tail
  | _ => none

/-- best element by key: the first maximal (or minimal) one -/
def bestBy (better : Int → Int → Bool) : List (Int × JVal) → Option (Int × JVal)
  | [] => none
  | x :: xs => match bestBy better xs with
    | none => some x
    | some y => if better y.1 x.1 then some y else some x

def bestByS (better : Bytes → Bytes → Bool) : List (Bytes × JVal) → Option (Bytes × JVal)
  | [] => none
  | x :: xs => match bestByS better xs with
    | none => some x
    | some y => if better y.1 x.1 then some y else some x

/-- functions whose arguments are all values -/
def applyFn (f : Fn) (args : List JVal) : Except Err JVal :=
  match f, args with
  | .abs, [.int i] => .ok (.int (if i < 0 then -i else i))
  | .abs, [_] => .error .invalidType
  | .contains, [.arr xs, v] => .ok (.bool (xs.any (· == v)))
  | .contains, [.str s, .str t] => .ok (.bool (containsSub s t))
  | .contains, [.str _, _] => .error .unjudged
  | .contains, [_, _] => .error .invalidType
  | .endsWith, [.str s, .str t] => .ok (.bool (isPrefixB t.reverse s.reverse))
  | .endsWith, [_, _] => .error .invalidType
  | .startsWith, [.str s, .str t] => .ok (.bool (isPrefixB t s))
  | .startsWith, [_, _] => .error .invalidType
  | .join, [.str g, .arr xs] =>
    (match allStrs xs with
    | some ss => .ok (.str (match ss with | [] => [] | s :: rest => rest.foldl (fun acc x => acc ++ g ++ x) s))
    | none => .error .invalidType)
  | .join, [_, _] => .error .invalidType
  | .keys, [.obj ms] => .ok (.arr (ms.map fun m => .str m.1))
  | .keys, [_] => .error .invalidType
  | .values, [.obj ms] => .ok (.arr (ms.map (·.2)))
  | .values, [_] => .error .invalidType
  | .length, [.str s] => .ok (.int (codepoints s).length)
  | .length, [.arr xs] => .ok (.int xs.length)
  | .length, [.obj ms] => .ok (.int ms.length)
  | .length, [_] => .error .invalidType
  | .max, [.arr xs] =>
    (match allInts xs, allStrs xs with
    | some is, _ => .ok (match is with | [] => .null | i :: rest => .int (rest.foldl (fun a b => if b > a then b else a) i))
    | _, some ss => .ok (match ss with | [] => .null | s :: rest => .str (rest.foldl (fun a b => if keyLt a b then b else a) s))
    | none, none => .error .invalidType)
  | .max, [_] => .error .invalidType
  | .min, [.arr xs] =>
    (match allInts xs, allStrs xs with
    | some is, _ => .ok (match is with | [] => .null | i :: rest => .int (rest.foldl (fun a b => if b < a then b else a) i))
    | _, some ss => .ok (match ss with | [] => .null | s :: rest => .str (rest.foldl (fun a b => if keyLt b a then b else a) s))
    | none, none => .error .invalidType)
  | .min, [_] => .error .invalidType
  | .merge, [] => .error .invalidArity
  | .merge, xs => (match mergeObjs xs with | some ms => .ok (.obj (normObj ms)) | none => .error .invalidType)
  | .notNull, [] => .error .invalidArity
  | .notNull, xs => .ok ((xs.find? (fun v => !v.isNull)).getD .null)
  | .reverse, [.arr xs] => .ok (.arr xs.reverse)
  | .reverse, [.str s] => .ok (.str ((codepoints s).reverse.flatten))
  | .reverse, [_] => .error .invalidType
  | .sort, [.arr xs] =>
    (match allInts xs, allStrs xs with
    | some is, _ => .ok (.arr ((stableSort (fun a b => decide (a ≤ b)) is).map .int))
    | _, some ss => .ok (.arr ((stableSort strLe ss).map .str))
    | none, none => .error .invalidType)
  | .sort, [_] => .error .invalidType
  | .sum, [.arr xs] => (match allInts xs with | some is => .ok (.int (is.foldl (· + ·) 0)) | none => .error .invalidType)
  | .sum, [_] => .error .invalidType
  | .toArray, [.arr xs] => .ok (.arr xs)
  | .toArray, [v] => .ok (.arr [v])
  | .toNumber, [.int i] => .ok (.int i)
  | .toNumber, [.str s] => toNumberStr s
  | .toNumber, [_] => .ok .null
  | .toString, [.str s] => .ok (.str s)
  | .toString, [_] => .error .unjudged
  | .type, [v] => .ok (.str (typeName v))
  | .unknown, _ => .error .unknownFunction
  | _, _ => .error .invalidArity

/-! ### evaluation -/

def mapM' {α β : Type} (f : α → Except Err β) : List α → Except Err (List β)
  | [] => .ok []
  | x :: xs => match f x with
    | .error e => .error e
    | .ok y => match mapM' f xs with
      | .error e => .error e
      | .ok ys => .ok (y :: ys)

def dropNulls (l : List JVal) : List JVal := l.filter fun v => !v.isNull

/-- keys computed by an expression reference must be all numbers or all strings -/
def byKeys (xs : List JVal) (ks : List JVal) : Except Err (Sum (List (Int × JVal)) (List (Bytes × JVal))) :=
  match allInts ks, allStrs ks with
  | some is, _ => .ok (.inl (is.zip xs))
  | _, some ss => .ok (.inr (ss.zip xs))
  | none, none => .error .invalidType

/-- apply `f` to every element; `null` results are dropped (the projection rule) -/
def projectWith (f : JVal → Except Err JVal) : List JVal → Except Err JVal
  | [] => .ok (.arr [])
  | x :: xs => match f x with
    | .error e => .error e
    | .ok y => match projectWith f xs with
      | .error e => .error e
      | .ok (.arr ys) => .ok (.arr (if y.isNull then ys else y :: ys))
      | .ok other => .ok other

def filterWith (f : JVal → Except Err JVal) : List JVal → Except Err (List JVal)
  | [] => .ok []
  | x :: xs => match f x with
    | .error e => .error e
    | .ok t => match filterWith f xs with
      | .error e => .error e
      | .ok ys => .ok (if truthy t then x :: ys else ys)

inductive ArgV where
  | val (v : JVal)
  | fn (f : JVal → Except Err JVal)

def argVals : List ArgV → Option (List JVal)
  | [] => some []
  | .val v :: rest => (argVals rest).map (v :: ·)
  | .fn _ :: _ => none

/-- function call; the functions taking an expression reference evaluate it once per element -/
def applyCall (f : Fn) (args : List ArgV) : Except Err JVal :=
  match f, args with
  | .map, [.fn e, .val (.arr xs)] => (mapM' e xs).map .arr
  | .sortBy, [.val (.arr xs), .fn e] => match mapM' e xs with
    | .error err => .error err
    | .ok ks => match byKeys xs ks with
      | .error err => .error err
      | .ok (.inl ps) => .ok (.arr ((stableSort (fun a b => decide (a.1 ≤ b.1)) ps).map (·.2)))
      | .ok (.inr ps) => .ok (.arr ((stableSort (fun a b => strLe a.1 b.1) ps).map (·.2)))
  | .maxBy, [.val (.arr xs), .fn e] => match mapM' e xs with
    | .error err => .error err
    | .ok ks => match byKeys xs ks with
      | .error err => .error err
      | .ok (.inl ps) => .ok (((bestBy (fun y x => decide (y > x)) ps).map (·.2)).getD .null)
      | .ok (.inr ps) => .ok (((bestByS (fun y x => keyLt x y) ps).map (·.2)).getD .null)
  | .minBy, [.val (.arr xs), .fn e] => match mapM' e xs with
    | .error err => .error err
    | .ok ks => match byKeys xs ks with
      | .error err => .error err
      | .ok (.inl ps) => .ok (((bestBy (fun y x => decide (y < x)) ps).map (·.2)).getD .null)
      | .ok (.inr ps) => .ok (((bestByS (fun y x => keyLt y x) ps).map (·.2)).getD .null)
  | f, args =>
    if f = .map ∨ f = .sortBy ∨ f = .maxBy ∨ f = .minBy then
      (if args.length = 2 then .error .invalidType else .error .invalidArity)
    else match argVals args with
      | none => .error .invalidType          -- an expression reference where a value is expected
      | some xs => applyFn f xs

mutual
  def eval : Expr → JVal → Except Err JVal
    | .chain start steps, v => match evalStart start v with
      | .error e => .error e
      | .ok x => evalSteps steps x
    | .pipe a b, v => match eval a v with
      | .error e => .error e
      | .ok x => eval b x
    | .or a b, v => match eval a v with
      | .error e => .error e
      | .ok x => if truthy x then .ok x else eval b v
    | .and a b, v => match eval a v with
      | .error e => .error e
      | .ok x => if truthy x then eval b v else .ok x
    | .not a, v => match eval a v with
      | .error e => .error e
      | .ok x => .ok (.bool (!truthy x))
    | .cmp op a b, v => match eval a v with
      | .error e => .error e
      | .ok x => match eval b v with
        | .error e => .error e
        | .ok y => .ok (cmpVals op x y)
    | .flat a steps, v => match eval a v with
      | .error e => .error e
      | .ok (.arr xs) => projectWith (fun x => evalSteps steps x) (flatten1 xs)
      | .ok _ => .ok .null
  def evalStart : Start → JVal → Except Err JVal
    | .ident k, v => .ok (field v k)
    | .current, v => .ok v
    | .lit x, _ => .ok x
    | .paren e, v => eval e v
    | .call f args, v => match evalArgs args v with
      | .error e => .error e
      | .ok xs => applyCall f xs
    | .mlist es, v => if v.isNull then .ok .null else match evalList es v with
      | .error e => .error e
      | .ok xs => .ok (.arr xs)
    | .mhash kvs, v => if v.isNull then .ok .null else match evalKVs kvs v with
      | .error e => .error e
      | .ok ms => .ok (.obj (normObj ms))
  /-- the rest of a chain applied to `v`; a projection step maps the remaining steps over the elements -/
  def evalSteps : List Step → JVal → Except Err JVal
    | [], v => .ok v
    | .field k :: rest, v => evalSteps rest (field v k)
    | .index i :: rest, v => evalSteps rest (index v i)
    | .mlist es :: rest, v => if v.isNull then evalSteps rest .null else match evalList es v with
      | .error e => .error e
      | .ok xs => evalSteps rest (.arr xs)
    | .mhash kvs :: rest, v => if v.isNull then evalSteps rest .null else match evalKVs kvs v with
      | .error e => .error e
      | .ok ms => evalSteps rest (.obj (normObj ms))
    | .call f args :: rest, v => match evalArgs args v with
      | .error e => .error e
      | .ok xs => match applyCall f xs with
        | .error e => .error e
        | .ok x => evalSteps rest x
    | .star :: rest, v => match v with
      | .arr xs => projectWith (fun x => evalSteps rest x) xs
      | _ => .ok .null
    | .objStar :: rest, v => match v with
      | .obj ms => projectWith (fun x => evalSteps rest x) (ms.map (·.2))
      | _ => .ok .null
    | .slice s :: rest, v => match v with
      | .arr xs => if s.step = 0 then .error .invalidValue else projectWith (fun x => evalSteps rest x) ((sliceIndices s xs.length).filterMap (xs[·]?))
      | _ => .ok .null
    | .filter c :: rest, v => match v with
      | .arr xs => match filterWith (fun x => eval c x) xs with
        | .error e => .error e
        | .ok ys => projectWith (fun x => evalSteps rest x) ys
      | _ => .ok .null
  def evalList : List Expr → JVal → Except Err (List JVal)
    | [], _ => .ok []
    | e :: es, v => match eval e v with
      | .error err => .error err
      | .ok x => match evalList es v with
        | .error err => .error err
        | .ok xs => .ok (x :: xs)
  def evalKVs : List KV → JVal → Except Err (List (Bytes × JVal))
    | [], _ => .ok []
    | .mk k e :: kvs, v => match eval e v with
      | .error err => .error err
      | .ok x => match evalKVs kvs v with
        | .error err => .error err
        | .ok ms => .ok ((k, x) :: ms.filter (fun m => m.1 ≠ k))     -- a repeated key: the first one stays in place … (never generated)
  /-- arguments left to right; an expression reference `&e` becomes the function "evaluate e on …" -/
  def evalArgs : List Arg → JVal → Except Err (List ArgV)
    | [], _ => .ok []
    | .val e :: rest, v => match eval e v with
      | .error err => .error err
      | .ok x => match evalArgs rest v with
        | .error err => .error err
        | .ok xs => .ok (.val x :: xs)
    | .ref e :: rest, v => match evalArgs rest v with
      | .error err => .error err
      | .ok xs => .ok (.fn (fun x => eval e x) :: xs)
end

/-- `search(expression, document)` -/
def search (e : Expr) (doc : JVal) : Except Err JVal := eval e doc

end JV.Spec.JMESPath
