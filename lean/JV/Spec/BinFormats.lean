/-
  JV.Spec.BinFormats — reference decoders for MessagePack (msgpack spec 2.0 / 5), UBJSON (draft 12) and
  BSON (1.1), written from the specifications, for the JSON-like core of each format. As for CBOR:
  value / ill-formed / unjudged (ext types, timestamps, high-precision numbers, decimal128, ObjectId,
  regex, code, non-text map keys … whose jsoncons rendering is jsoncons' own choice).
-/
import JV.Spec.Cbor
namespace JV.Spec
open JV Spec.Cbor

def leVal : Bytes → Nat
  | [] => 0
  | b :: bs => b + 256 * leVal bs

def toSigned (bits : Nat) (n : Nat) : Int := if n ≥ 2 ^ (bits - 1) then (n : Int) - (2 ^ bits : Nat) else n

def takeN (n : Nat) (s : Bytes) : Option (Bytes × Bytes) := if s.length < n then none else some (s.take n, s.drop n)

/-! ## MessagePack -/
namespace Msgpack

mutual
  def item : Nat → Bytes → Res BV
    | 0, _ => .illformed
    | _, [] => .illformed
    | fuel + 1, b :: s =>
      let str (n : Nat) (s : Bytes) : Res BV :=
        match takeN n s with
        | none => .illformed
        | some (d, r) => if Rfc8259.validUtf8 d then .ok (.str d "") r else .illformed
      let bin (n : Nat) (s : Bytes) : Res BV :=
        match takeN n s with
        | none => .illformed
        | some (d, r) => .ok (.bytes d "") r
      let lenThen (w : Nat) (k : Nat → Bytes → Res BV) : Res BV :=
        match takeN w s with
        | none => .illformed
        | some (d, r) => k (beVal d) r
      if b ≤ 0x7f then .ok (.int b "") s
      else if b ≤ 0x8f then wrapMap (members fuel (b - 0x80) s)
      else if b ≤ 0x9f then wrapArr (items fuel (b - 0x90) s)
      else if b ≤ 0xbf then str (b - 0xa0) s
      else if b = 0xc0 then .ok .null s
      else if b = 0xc1 then .illformed
      else if b = 0xc2 then .ok (.bool false) s
      else if b = 0xc3 then .ok (.bool true) s
      else if b = 0xc4 then lenThen 1 bin
      else if b = 0xc5 then lenThen 2 bin
      else if b = 0xc6 then lenThen 4 bin
      else if b = 0xc7 ∨ b = 0xc8 ∨ b = 0xc9 then
        -- ext: well-formedness only
        lenThen (if b = 0xc7 then 1 else if b = 0xc8 then 2 else 4) fun n r => if r.length < n + 1 then .illformed else .unjudged
      else if b = 0xca then lenThen 4 fun v r => .ok (.dbl (f32ToF64 v) "") r
      else if b = 0xcb then lenThen 8 fun v r => .ok (.dbl v "") r
      else if b = 0xcc then lenThen 1 fun v r => .ok (.int v "") r
      else if b = 0xcd then lenThen 2 fun v r => .ok (.int v "") r
      else if b = 0xce then lenThen 4 fun v r => .ok (.int v "") r
      else if b = 0xcf then lenThen 8 fun v r => .ok (.int v "") r
      else if b = 0xd0 then lenThen 1 fun v r => .ok (.int (toSigned 8 v) "") r
      else if b = 0xd1 then lenThen 2 fun v r => .ok (.int (toSigned 16 v) "") r
      else if b = 0xd2 then lenThen 4 fun v r => .ok (.int (toSigned 32 v) "") r
      else if b = 0xd3 then lenThen 8 fun v r => .ok (.int (toSigned 64 v) "") r
      else if 0xd4 ≤ b ∧ b ≤ 0xd8 then
        let n := if b = 0xd4 then 1 else if b = 0xd5 then 2 else if b = 0xd6 then 4 else if b = 0xd7 then 8 else 16
        if s.length < n + 1 then .illformed else .unjudged
      else if b = 0xd9 then lenThen 1 str
      else if b = 0xda then lenThen 2 str
      else if b = 0xdb then lenThen 4 str
      else if b = 0xdc then lenThen 2 fun n r => wrapArr (items fuel n r)
      else if b = 0xdd then lenThen 4 fun n r => wrapArr (items fuel n r)
      else if b = 0xde then lenThen 2 fun n r => wrapMap (members fuel n r)
      else if b = 0xdf then lenThen 4 fun n r => wrapMap (members fuel n r)
      else .ok (.int ((b : Int) - 256) "") s
  def items : Nat → Nat → Bytes → Res (List BV)
    | _, 0, s => .ok [] s
    | 0, _ + 1, _ => .illformed
    | fuel + 1, n + 1, s =>
      match item fuel s with
      | .ok x s1 => (match items fuel n s1 with
        | .ok xs rest => .ok (x :: xs) rest
        | r => r)
      | .illformed => .illformed
      | .unjudged => .unjudged
  def members : Nat → Nat → Bytes → Res (List (Bytes × BV))
    | _, 0, s => .ok [] s
    | 0, _ + 1, _ => .illformed
    | fuel + 1, n + 1, s =>
      match item fuel s with
      | .ok (.str k _) s1 =>
        (match item fuel s1 with
        | .ok v s2 => (match members fuel n s2 with
          | .ok ms rest => .ok ((k, v) :: ms) rest
          | r => r)
        | .illformed => .illformed
        | .unjudged => .unjudged)
      | .ok _ _ => .unjudged
      | .illformed => .illformed
      | .unjudged => .unjudged
  def wrapArr : Res (List BV) → Res BV
    | .ok xs r => .ok (.arr xs) r
    | .illformed => .illformed
    | .unjudged => .unjudged
  def wrapMap : Res (List (Bytes × BV)) → Res BV
    | .ok ms r => .ok (.map ms) r
    | .illformed => .illformed
    | .unjudged => .unjudged
end

def decode (s : Bytes) : Res BV := item (2 * s.length + 2) s

end Msgpack

/-! ## BSON -/
namespace Bson

/-- a C string: bytes up to the first 0x00 -/
def cstring : Bytes → Option (Bytes × Bytes)
  | [] => none
  | 0 :: r => some ([], r)
  | c :: r => (cstring r).map fun p => (c :: p.1, p.2)

mutual
  /-- a document: int32 total size, elements, 0x00; the size must match -/
  def document : Nat → Bytes → Res (List (Bytes × BV))
    | 0, _ => .illformed
    | fuel + 1, s =>
      match takeN 4 s with
      | none => .illformed
      | some (szb, r) =>
        let size := leVal szb
        if size < 5 ∨ s.length < size then .illformed
        else
          let body := r.take (size - 4)
          match elements fuel body with
          | .ok ms [] => .ok ms (r.drop (size - 4))
          | .ok _ _ => .illformed
          | .illformed => .illformed
          | .unjudged => .unjudged
  /-- e_list followed by the terminating 0x00 which must be the last byte of `body` -/
  def elements : Nat → Bytes → Res (List (Bytes × BV))
    | 0, _ => .illformed
    | _, [] => .illformed
    | _, [0] => .ok [] []
    | fuel + 1, t :: s =>
      if t = 0 then .illformed
      else match cstring s with
        | none => .illformed
        | some (name, r) =>
          if ¬ Rfc8259.validUtf8 name then .unjudged     -- e_name is a cstring; whether its UTF-8 is checked is left open
          else
            let cont (v : BV) (r' : Bytes) : Res (List (Bytes × BV)) :=
              match elements fuel r' with
              | .ok ms rest => .ok ((name, v) :: ms) rest
              | x => x
            if t = 0x01 then (match takeN 8 r with | none => .illformed | some (d, r') => cont (.dbl (leVal d) "") r')
            else if t = 0x02 then
              (match takeN 4 r with
              | none => .illformed
              | some (lb, r1) =>
                let n := leVal lb
                if n < 1 then .illformed
                else match takeN n r1 with
                  | none => .illformed
                  | some (d, r2) =>
                    if d.getLast? ≠ some 0 then .illformed
                    else if Rfc8259.validUtf8 d.dropLast then cont (.str d.dropLast "") r2 else .illformed)
            else if t = 0x03 then
              (match document fuel r with
              | .ok ms r' => cont (.map ms) r'
              | .illformed => .illformed
              | .unjudged => .unjudged)
            else if t = 0x04 then
              (match document fuel r with
              | .ok ms r' => cont (.arr (ms.map (·.2))) r'
              | .illformed => .illformed
              | .unjudged => .unjudged)
            else if t = 0x05 then
              -- binary ::= int32 subtype (byte*): the int32 counts the bytes after the subtype. Subtype 0x02 ("binary (old)") has an
              -- inner structure whose rendering is left open; every other subtype is delivered as the bytes, marked "ext"
              (match takeN 4 r with
              | none => .illformed
              | some (lb, r1) =>
                let n := leVal lb
                if n ≥ 2 ^ 31 then .illformed
                else match r1 with
                  | [] => .illformed
                  | st :: r2 =>
                    match takeN n r2 with
                    | none => .illformed
                    | some (d, r3) => if st = 0x02 then .unjudged else cont (.bytes d "ext") r3)
            else if t = 0x08 then
              (match r with
              | 0 :: r' => cont (.bool false) r'
              | 1 :: r' => cont (.bool true) r'
              | _ => .illformed)
            else if t = 0x09 then (match takeN 8 r with | none => .illformed | some (d, r') => cont (.int (toSigned 64 (leVal d)) "epoch_milli") r')
            else if t = 0x0A then cont .null r
            else if t = 0x10 then (match takeN 4 r with | none => .illformed | some (d, r') => cont (.int (toSigned 32 (leVal d)) "") r')
            else if t = 0x12 then (match takeN 8 r with | none => .illformed | some (d, r') => cont (.int (toSigned 64 (leVal d)) "") r')
            else if t = 0x06 ∨ t = 0x07 ∨ t = 0x0B ∨ t = 0x0C ∨ t = 0x0D ∨ t = 0x0E ∨ t = 0x0F ∨ t = 0x11 ∨ t = 0x13 ∨ t = 0x7F ∨ t = 0xFF then .unjudged
            else .illformed
end

/-- the whole input is one document, read with `fuel` (an artefact of the definition: see `decode`) -/
def decodeWith (fuel : Nat) (s : Bytes) : Res BV :=
  match document fuel s with
  | .ok ms r => .ok (.map ms) r
  | .illformed => .illformed
  | .unjudged => .unjudged

def decode (s : Bytes) : Res BV := decodeWith (2 * s.length + 2) s

end Bson

/-! ## UBJSON -/
namespace Ubjson

/-- an integer value with its type marker (used for lengths and counts) -/
def intOf (m : Nat) (s : Bytes) : Option (Int × Bytes) :=
  if m = 105 then (takeN 1 s).map fun p => (toSigned 8 (beVal p.1), p.2)         -- i
  else if m = 85 then (takeN 1 s).map fun p => ((beVal p.1 : Int), p.2)           -- U
  else if m = 73 then (takeN 2 s).map fun p => (toSigned 16 (beVal p.1), p.2)     -- I
  else if m = 108 then (takeN 4 s).map fun p => (toSigned 32 (beVal p.1), p.2)    -- l
  else if m = 76 then (takeN 8 s).map fun p => (toSigned 64 (beVal p.1), p.2)     -- L
  else none

def length (s : Bytes) : Option (Nat × Bytes) :=
  match s with
  | [] => none
  | m :: r => match intOf m r with
    | none => none
    | some (n, r') => if n < 0 then none else some (n.toNat, r')

def isNoop (c : Nat) : Bool := c = 78

mutual
  /-- a value whose type marker `m` has already been read -/
  def valueOf : Nat → Nat → Bytes → Res BV
    | 0, _, _ => .illformed
    | fuel + 1, m, s =>
      if m = 90 then .ok .null s                       -- Z
      else if m = 84 then .ok (.bool true) s           -- T
      else if m = 70 then .ok (.bool false) s          -- F
      else if m = 105 ∨ m = 85 ∨ m = 73 ∨ m = 108 ∨ m = 76 then
        (match intOf m s with | none => .illformed | some (v, r) => .ok (.int v "") r)
      else if m = 100 then (match takeN 4 s with | none => .illformed | some (d, r) => .ok (.dbl (f32ToF64 (beVal d)) "") r)
      else if m = 68 then (match takeN 8 s with | none => .illformed | some (d, r) => .ok (.dbl (beVal d) "") r)
      else if m = 67 then (match s with | [] => .illformed | c :: r => if c < 128 then .ok (.str [c] "") r else .unjudged)
      else if m = 83 then
        (match length s with
        | none => .illformed
        | some (n, r) => match takeN n r with
          | none => .illformed
          | some (d, r') => if Rfc8259.validUtf8 d then .ok (.str d "") r' else .illformed)
      else if m = 72 then (match length s with
        | none => .illformed
        | some (n, r) => if r.length < n then .illformed else .unjudged)
      else if m = 91 then container fuel true s
      else if m = 123 then container fuel false s
      else .illformed
  /-- after `[` or `{`: optional `$type`, optional `#count` -/
  def container : Nat → Bool → Bytes → Res BV
    | 0, _, _ => .illformed
    | fuel + 1, isArr, s =>
      match s with
      | 36 :: ty :: 35 :: r =>                           -- $ type # count
        (match length r with
        | none => .illformed
        | some (n, r') =>
          if isArr then wrapArr (typedItems fuel ty n r') else wrapMap (typedMembers fuel ty n r'))
      | 36 :: _ => .illformed                              -- a type without a count is not allowed
      | 35 :: r =>
        (match length r with
        | none => .illformed
        | some (n, r') => if isArr then wrapArr (countedItems fuel n r') else wrapMap (countedMembers fuel n r'))
      | _ => if isArr then wrapArr (openItems fuel s) else wrapMap (openMembers fuel s)
  def typedItems : Nat → Nat → Nat → Bytes → Res (List BV)
    | _, _, 0, s => .ok [] s
    | 0, _, _ + 1, _ => .illformed
    | fuel + 1, ty, n + 1, s =>
      match valueOf fuel ty s with
      | .ok x s1 => (match typedItems fuel ty n s1 with | .ok xs r => .ok (x :: xs) r | e => e)
      | .illformed => .illformed
      | .unjudged => .unjudged
  def countedItems : Nat → Nat → Bytes → Res (List BV)
    | _, 0, s => .ok [] s
    | 0, _ + 1, _ => .illformed
    | _, _ + 1, [] => .illformed
    | fuel + 1, n + 1, m :: s =>
      if isNoop m then .unjudged               -- a no-op among counted items: the draft does not say whether it takes one of the counted slots (jsoncons counts it)
      else match valueOf fuel m s with
        | .ok x s1 => (match countedItems fuel n s1 with | .ok xs r => .ok (x :: xs) r | e => e)
        | .illformed => .illformed
        | .unjudged => .unjudged
  def openItems : Nat → Bytes → Res (List BV)
    | 0, _ => .illformed
    | _, [] => .illformed
    | fuel + 1, m :: s =>
      if m = 93 then .ok [] s
      else if isNoop m then openItems fuel s
      else match valueOf fuel m s with
        | .ok x s1 => (match openItems fuel s1 with | .ok xs r => .ok (x :: xs) r | e => e)
        | .illformed => .illformed
        | .unjudged => .unjudged
  /-- a key: length + UTF-8 (no `S` marker) -/
  def typedMembers : Nat → Nat → Nat → Bytes → Res (List (Bytes × BV))
    | _, _, 0, s => .ok [] s
    | 0, _, _ + 1, _ => .illformed
    | fuel + 1, ty, n + 1, s =>
      match length s with
      | none => .illformed
      | some (kl, r) => match takeN kl r with
        | none => .illformed
        | some (k, r1) =>
          if ¬ Rfc8259.validUtf8 k then .illformed
          else match valueOf fuel ty r1 with
            | .ok x s1 => (match typedMembers fuel ty n s1 with | .ok ms r => .ok ((k, x) :: ms) r | e => e)
            | .illformed => .illformed
            | .unjudged => .unjudged
  def countedMembers : Nat → Nat → Bytes → Res (List (Bytes × BV))
    | _, 0, s => .ok [] s
    | 0, _ + 1, _ => .illformed
    | fuel + 1, n + 1, s =>
      match length s with
      | none => .illformed
      | some (kl, r) => match takeN kl r with
        | none => .illformed
        | some (k, r1) =>
          if ¬ Rfc8259.validUtf8 k then .illformed
          else match r1 with
            | [] => .illformed
            | m :: r2 => match valueOf fuel m r2 with
              | .ok x s1 => (match countedMembers fuel n s1 with | .ok ms r => .ok ((k, x) :: ms) r | e => e)
              | .illformed => .illformed
              | .unjudged => .unjudged
  def openMembers : Nat → Bytes → Res (List (Bytes × BV))
    | 0, _ => .illformed
    | _, [] => .illformed
    | fuel + 1, c :: s =>
      if c = 125 then .ok [] s
      else if isNoop c then .unjudged          -- a no-op where a key is expected: the draft does not say
      else match length (c :: s) with
        | none => .illformed
        | some (kl, r) => match takeN kl r with
          | none => .illformed
          | some (k, r1) =>
            if ¬ Rfc8259.validUtf8 k then .illformed
            else match r1 with
              | [] => .illformed
              | m :: r2 => match valueOf fuel m r2 with
                | .ok x s1 => (match openMembers fuel s1 with | .ok ms r => .ok ((k, x) :: ms) r | e => e)
                | .illformed => .illformed
                | .unjudged => .unjudged
  def wrapArr : Res (List BV) → Res BV
    | .ok xs r => .ok (.arr xs) r
    | .illformed => .illformed
    | .unjudged => .unjudged
  def wrapMap : Res (List (Bytes × BV)) → Res BV
    | .ok ms r => .ok (.map ms) r
    | .illformed => .illformed
    | .unjudged => .unjudged
end

def decode (s : Bytes) : Res BV :=
  match s with
  | [] => .illformed
  | m :: r => valueOf (3 * s.length + 3) m r

end Ubjson
end JV.Spec
