import JV.Model.MergePatch
namespace JV.Props.C16
theorem placeholder : True := trivial
end JV.Props.C16
