/-
  C16 — JSON Merge Patch follows RFC 7386.

  Property theorems only (helpers: JV.Proofs.MergePatch, JV.Proofs.MergePatchDiff, JV.Proofs.Assoc).
  Model  : JV.Model.MergePatch  (mergepatch.hpp, step for step; `false` = jsoncons::json)
  Spec   : JV.Spec.Rfc7386      (the RFC's pseudo-code over canonical finite maps)
  Domain : `JVal.WF` — every object of the value has strictly increasing keys, which is the
           representation invariant of `jsoncons::json` (sorted_json_object).
-/
import JV.Proofs.MergePatchDiff
namespace JV.Props.C16
open JV Assoc Model Spec.Rfc7386

/-- apply_merge_patch computes exactly the RFC 7386 MergePatch function, for every target and patch
    (non-object targets and patches, nested nulls, empty objects, shared/unshared names at any depth). -/
theorem applyMP_refines_rfc (t p : JVal) (ht : t.WF) (hp : p.WF) :
    applyMP false t p = mergePatch t p :=
  (applyMP_spec p t ht hp).1

/-- … and the result again satisfies the container's representation invariant. -/
theorem applyMP_preserves_inv (t p : JVal) (ht : t.WF) (hp : p.WF) : (applyMP false t p).WF :=
  (applyMP_spec p t ht hp).2

/-- The Spec says what RFC 7386 means as a statement about finite maps: after merging object patch
    `pm` into object `tm`, a name absent from the patch keeps its value, a name patched with `null`
    is absent, and any other patched name maps to MergePatch(old value or nothing, patch value). -/
theorem rfc_pointwise (k : Bytes) (tm pm : List (Bytes × JVal)) (ht : Sorted tm) (hp : Sorted pm) :
    find k (mergeMembers tm pm) =
      match find k pm with
      | none => find k tm
      | some pv => if pv.isNull then none else some (mergePatch ((find k tm).getD .null) pv) :=
  find_mergeMembers k pm tm ht (nodupKeys_of_sorted hp)

/-- the map operation used by the Spec is a map update -/
theorem assign_is_map_update (k k' : Bytes) (v : JVal) (ms : List (Bytes × JVal)) (hs : Sorted ms) :
    Sorted (assign k v ms) ∧ find k (assign k v ms) = some v ∧ (k' ≠ k → find k' (assign k v ms) = find k' ms) :=
  ⟨sorted_assign hs, find_assign_self hs, fun h => find_assign_ne hs h⟩

/-- diff law: for every source and every target without null object members,
    apply_merge_patch(source, from_diff(source, target)) = target. -/
theorem diff_law_mp (s t : JVal) (hs : s.WF) (ht : t.WF) (hn : t.NoNullMembers) :
    applyMP false s (fromDiff false s t) = t :=
  diff_law_aux s.size s t (Nat.le_refl _) hs ht hn

/-- from_diff produces a well-formed patch -/
theorem fromDiff_preserves_inv (s t : JVal) (hs : s.WF) (ht : t.WF) : (fromDiff false s t).WF :=
  fromDiff_WF s t hs ht

/-- the `NoNullMembers` hypothesis of the diff law is necessary (the property states it too) -/
theorem diff_law_needs_no_null :
    (applyMP false (.obj []) (fromDiff false (.obj []) (.obj [([97], .null)])) == JVal.obj [([97], .null)]) = false := by
  decide

/-! ### non-vacuity: concrete non-trivial values meet the hypotheses -/

def exTarget : JVal := .obj [([97], .int 1), ([98], .obj [([99], .int 2), ([100], .arr [.null, .obj [([122], .null)]])])]
def exPatch : JVal := .obj [([97], .null), ([98], .obj [([99], .null), ([101], .str [0, 255])]), ([102], .arr [.int 1])]

example : exTarget.WF ∧ exPatch.WF := by
  simp [exTarget, exPatch, JVal.WF, WFMembers, WFList, Sorted, keyLt]

example : applyMP false exTarget exPatch =
    .obj [([98], .obj [([100], .arr [.null, .obj [([122], .null)]]), ([101], .str [0, 255])]), ([102], .arr [.int 1])] := by
  decide

example : JVal.NoNullMembers (.obj [([98], .obj [([100], .arr [.null])]), ([102], .arr [.int 1])]) := by
  simp [JVal.NoNullMembers, NoNullMems, NoNullList, JVal.isNull]

end JV.Props.C16
