/-
  C10X — the translator tie for C10: the default resource limits, REGENERATED from the C++ source on every run
  (tools/extract.py → JV/Extracted/Defaults.lean: the `max_nesting_depth_` initialiser of json_options.hpp and of every
  *_options.hpp, UBJSON's `max_items_`), are the values the checks, the driver and the reference assume (1024 everywhere:
  Drv/JsonText.lean `maxDepth := 1024`, Props.C02.fl, checks/c10.py's "dump at depth ≥ 1024 is refused"; 2^24 items).
-/
import JV.Proofs.JsonDepth
import JV.Extracted.Lookup
import JV.Extracted.Defaults
namespace JV.Props.C10X
open JV JV.Extracted Spec.Rfc8259

/-- every format has a finite default nesting limit, the same one, 1024 -/
theorem default_nesting_depths :
    maxNestingDepth = [("json", 1024), ("cbor", 1024), ("msgpack", 1024), ("ubjson", 1024), ("bson", 1024), ("csv", 1024), ("toon", 1024)] := by decide

theorem default_nesting_depth_uniform : ∀ p ∈ maxNestingDepth, p.2 = 1024 := by decide

/-- UBJSON's default max_items is 2^24 (`1 << 24` in the source) -/
theorem ubjson_default_max_items : ubjsonMaxItems = 2 ^ 24 := by decide

/-- the reference parser run with the library's default limit accepts k+1 nested arrays iff k+1 ≤ 1024 — the default is what
    "accept 1024, refuse 1025" in the depth sweeps means -/
theorem default_limit_is_exact (d : Nat) (h : lookup maxNestingDepth "json" = some d) (c t : Bool) (k : Nat) :
    (parseText { comments := c, trailingComma := t, maxDepth := d } (nested k [])).isSome = decide (k + 1 ≤ 1024) := by
  have e : d = 1024 := Option.some.inj (h.symm.trans (by decide))
  subst e
  exact depth_limit_exact _ k

/-- the parser's initial capacities are below the limits they grow towards (a default-configured parser starts with room for 66 levels
    and a 256-character buffer; neither is a limit) -/
theorem initial_capacities : parserInitialStackCapacity = 66 ∧ parserInitialBufferCapacity = 256 ∧ parserInitialStackCapacity ≤ 1024
    ∧ toonFlattenDepth = 1024 := by decide

end JV.Props.C10X
