/-
  C19 — allocation failure at any point is handled cleanly.

  Whether a particular allocation site leaks or leaves a dangling discriminator is a fact about the compiled code; the check
  injects a failure at the 1st, 2nd, … n-th allocation of every scenario on the real library and observes leaks, validity and
  atomicity (checks/c19.py). What is logic is the order of steps in the one place where basic_json manages raw storage by hand —
  copy assignment — and that is proved: building the copy before releasing the old value is safe for every failure point; the
  order the code had (release first) is not (`destroy_first_is_unsafe` exhibits the failing point; found as D14 and repaired).
-/
import JV.Model.AllocProtocol
namespace JV
namespace Props
namespace C19
open Model.AllocProtocol

/-- with the copy built first, whatever step fails the target holds its old value or the new one and nothing is leaked -/
theorem build_first_is_safe (failAt : Option Nat) : Safe (run buildFirst failAt {}) := by
  cases failAt with
  | none => decide
  | some k =>
    match k with
    | 0 => decide
    | 1 => decide
    | 2 => decide
    | k + 3 => simp [run, buildFirst, Safe]

theorem build_first_completes : (run buildFirst none {}).target = .new := by decide
theorem build_first_failure_keeps_old : (run buildFirst (some 0) {}).target = .old := by decide

/-- releasing first is not safe: a failing copy leaves the target naming released storage -/
theorem destroy_first_is_unsafe : ¬ Safe (run destroyFirst (some 1) {}) := by decide

end C19
end Props
end JV
