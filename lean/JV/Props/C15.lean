/-
  C15 — JSON Patch is RFC 6902-conformant and atomic.

  Model : JV.Model.Patch (jsonpatch.hpp apply_patch incl. definite_path, the insert-else-replace
          fallback, the undo log and the unwinder that stops at the first failing undo; from_diff).
  Spec  : JV.Spec.Rfc6902 (executed by the driver as the oracle of the correspondence run).

  Proved here: the failure half that does not depend on the undo log (every operation that fails
  leaves the document as it found it unless it is the second half of `move`, whose first half is
  logged), rejection of malformed operations, purity of `test`. The full statements
      apply_atomic        : (applyPatch o d p).1 ≠ none → (applyPatch o d p).2 ≃ d
      apply_refines_spec  : (applyPatch false d p).1 = none → Rfc6902.applyPatch d p = some (applyPatch false d p).2
      diff_law            : applyPatch o a (fromDiff o [] a b) = (none, b)
  are checked on every run by the correspondence run against the Lean Spec and by the property
  oracle on the real code; their proofs (per-operation inversion lemmas for the undo log) are the
  stated gap of this property — see DESIGN.md.
-/
import JV.Proofs.Patch
namespace JV.Props.C15
open JV Model Model.Patch Model.Pointer

/-- every operation that reports an error without having logged an undo entry has left the document untouched
    (for both object flavours; the only failing operation that logs an entry is `move` after its removal) -/
theorem failing_op_leaves_doc (ordered : Bool) (t operation : JVal)
    (h1 : (applyOp ordered t operation).1 ≠ none) (h2 : (applyOp ordered t operation).2.2 = []) :
    (applyOp ordered t operation).2.1 = t :=
  applyOp_err_doc ordered t operation h1 h2

/-- atomicity when the first operation is the one that fails -/
theorem atomic_at_first_failure (ordered : Bool) (d operation : JVal) (ops : List JVal)
    (h1 : (applyOp ordered d operation).1 ≠ none) (h2 : (applyOp ordered d operation).2.2 = []) :
    (applyPatch ordered d (.arr (operation :: ops))).2 = d := by
  have hd := applyOp_err_doc ordered d operation h1 h2
  simp only [applyPatch, applyLoop]
  cases he : (applyOp ordered d operation).1 with
  | none => exact absurd he h1
  | some e => simp [h2, unwind, hd]

/-- a patch that is not an array is rejected and nothing is touched -/
theorem non_array_patch_rejected (ordered : Bool) (d p : JVal) (h : p.isArray = false) :
    applyPatch ordered d p = (some .invalidPatch, d) := by
  cases p <;> simp_all [applyPatch, JVal.isArray]

/-- an operation object without "op", without "path", or whose path is not a JSON Pointer is `invalid_patch` -/
theorem malformed_operation_rejected (ordered : Bool) (d : JVal) (om : List (Bytes × JVal))
    (h : (Assoc.find sOp om).bind strOf = none ∨ (Assoc.find sPath om).bind strOf = none) :
    applyOp ordered d (.obj om) = (some .invalidPatch, d, []) := by
  unfold applyOp
  rcases h with h | h
  · simp [h]
  · cases h1 : (Assoc.find sOp om).bind strOf with
    | none => simp [h1]
    | some op => simp [h, h1]

/-- an "op" that is none of the six RFC 6902 operations is rejected (D10, repaired) -/
theorem unknown_op_rejected (ordered : Bool) (d : JVal) (om : List (Bytes × JVal)) (op path : Bytes) (loc : List Bytes)
    (h1 : (Assoc.find sOp om).bind strOf = some op) (h2 : (Assoc.find sPath om).bind strOf = some path)
    (h3 : parse path = .ok loc)
    (hu : op ≠ sTest ∧ op ≠ sAdd ∧ op ≠ sRemove ∧ op ≠ sReplace ∧ op ≠ sMove ∧ op ≠ sCopy) :
    applyOp ordered d (.obj om) = (some .invalidPatch, d, []) := by
  unfold applyOp
  simp [h1, h2, h3, hu.1, hu.2.1, hu.2.2.1, hu.2.2.2.1, hu.2.2.2.2.1, hu.2.2.2.2.2]

/-- `test` never modifies the document and logs nothing -/
theorem test_is_pure (d : JVal) (loc : List Bytes) (om : List (Bytes × JVal)) :
    (opTest d loc om).2 = (d, []) := by
  unfold opTest
  repeat' split
  all_goals rfl

/-- a root target goes through the replace path, whose undo entry restores the original document (D11, repaired) -/
theorem root_add_logs_replace (ordered : Bool) (d v : JVal) :
    addLike ordered d [] v = (true, v, [.replace [] d]) := by
  simp [addLike, Pointer.get, Pointer.apply]

/-! ### non-vacuity / regression witnesses (evaluated by the kernel) -/

def docA : JVal := .obj [([97], .int 1)]
def opRemoveA : JVal := .obj [(sOp, .str sRemove), (sPath, .str [47, 97])]
def opAddRoot7 : JVal := .obj [(sOp, .str sAdd), (sPath, .str []), (sValue, .int 7)]
def opTestRoot8 : JVal := .obj [(sOp, .str sTest), (sPath, .str []), (sValue, .int 8)]
def opFrob : JVal := .obj [(sOp, .str [102, 114, 111, 98]), (sPath, .str [47, 97]), (sValue, .int 2)]

example : applyPatch false docA (.arr [opRemoveA, opAddRoot7, opTestRoot8]) = (some .testFailed, docA) := by decide
example : applyPatch false docA (.arr [opFrob]) = (some .invalidPatch, docA) := by decide
example : applyPatch false docA (.arr [opRemoveA, opAddRoot7]) = (none, .int 7) := by decide

end JV.Props.C15
