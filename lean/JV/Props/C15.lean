/-
  C15 — JSON Patch is RFC 6902-conformant and atomic.

  Model : JV.Model.Patch (jsonpatch.hpp apply_patch incl. definite_path, the insert-else-replace
          fallback, the undo log and the unwinder that stops at the first failing undo; from_diff).
  Spec  : JV.Spec.Rfc6902 (executed by the driver as the oracle of the correspondence run).

  Proved here: the failure half that does not depend on the undo log (every operation that fails
  leaves the document as it found it unless it is the second half of `move`, whose first half is
  logged), rejection of malformed operations, purity of `test`. The full statements
      apply_atomic        : (applyPatch o d p).1 ≠ none → (applyPatch o d p).2 ≃ d
      apply_refines_spec  : (applyPatch false d p).1 = none → Rfc6902.applyPatch d p = some (applyPatch false d p).2
      diff_law            : applyPatch o a (fromDiff o [] a b) = (none, b)
  are checked on every run by the correspondence run against the Lean Spec and by the property
  oracle on the real code; their proofs (per-operation inversion lemmas for the undo log) are the
  stated gap of this property — see DESIGN.md.
-/
import JV.Proofs.Patch
import JV.Proofs.PatchUndoD
namespace JV.Props.C15
open JV Model Model.Patch Model.Pointer

/-- every operation that reports an error without having logged an undo entry has left the document untouched
    (for both object flavours; the only failing operation that logs an entry is `move` after its removal) -/
theorem failing_op_leaves_doc (ordered : Bool) (t operation : JVal)
    (h1 : (applyOp ordered t operation).1 ≠ none) (h2 : (applyOp ordered t operation).2.2 = []) :
    (applyOp ordered t operation).2.1 = t :=
  applyOp_err_doc ordered t operation h1 h2

/-- atomicity when the first operation is the one that fails -/
theorem atomic_at_first_failure (ordered : Bool) (d operation : JVal) (ops : List JVal)
    (h1 : (applyOp ordered d operation).1 ≠ none) (h2 : (applyOp ordered d operation).2.2 = []) :
    (applyPatch ordered d (.arr (operation :: ops))).2 = d := by
  have hd := applyOp_err_doc ordered d operation h1 h2
  simp only [applyPatch, applyLoop]
  cases he : (applyOp ordered d operation).1 with
  | none => exact absurd he h1
  | some e => simp [h2, unwind, hd]

/-- a patch that is not an array is rejected and nothing is touched -/
theorem non_array_patch_rejected (ordered : Bool) (d p : JVal) (h : p.isArray = false) :
    applyPatch ordered d p = (some .invalidPatch, d) := by
  cases p <;> simp_all [applyPatch, JVal.isArray]

/-- an operation object without "op", without "path", or whose path is not a JSON Pointer is `invalid_patch` -/
theorem malformed_operation_rejected (ordered : Bool) (d : JVal) (om : List (Bytes × JVal))
    (h : (Assoc.find sOp om).bind strOf = none ∨ (Assoc.find sPath om).bind strOf = none) :
    applyOp ordered d (.obj om) = (some .invalidPatch, d, []) := by
  unfold applyOp
  rcases h with h | h
  · simp [h]
  · cases h1 : (Assoc.find sOp om).bind strOf with
    | none => simp [h1]
    | some op => simp [h, h1]

/-- an "op" that is none of the six RFC 6902 operations is rejected (D10, repaired) -/
theorem unknown_op_rejected (ordered : Bool) (d : JVal) (om : List (Bytes × JVal)) (op path : Bytes) (loc : List Bytes)
    (h1 : (Assoc.find sOp om).bind strOf = some op) (h2 : (Assoc.find sPath om).bind strOf = some path)
    (h3 : parse path = .ok loc)
    (hu : op ≠ sTest ∧ op ≠ sAdd ∧ op ≠ sRemove ∧ op ≠ sReplace ∧ op ≠ sMove ∧ op ≠ sCopy) :
    applyOp ordered d (.obj om) = (some .invalidPatch, d, []) := by
  unfold applyOp
  simp [h1, h2, h3, hu.1, hu.2.1, hu.2.2.1, hu.2.2.2.1, hu.2.2.2.2.1, hu.2.2.2.2.2]

/-- `test` never modifies the document and logs nothing -/
theorem test_is_pure (d : JVal) (loc : List Bytes) (om : List (Bytes × JVal)) :
    (opTest d loc om).2 = (d, []) := by
  unfold opTest
  repeat' split
  all_goals rfl

/-- a root target goes through the replace path, whose undo entry restores the original document (D11, repaired) -/
theorem root_add_logs_replace (ordered : Bool) (d v : JVal) :
    addLike ordered d [] v = (true, v, [.replace [] d]) := by
  simp [addLike, Pointer.get, Pointer.apply]

/-! ### ATOMICITY: if any operation fails, the document is left as it was -/

/-- the `value` members of the patch's operation objects satisfy the representation invariant -/
def PatchValuesWF : JVal → Prop
  | .arr ops => ∀ op ∈ ops, OpValWF op
  | _ => True

theorem wf_of_mem {x : JVal} : ∀ {xs : List JVal}, WFList xs → x ∈ xs → x.WF
  | [], _, h => by simp at h
  | y :: ys, hw, h => by
    rcases List.mem_cons.1 h with e | e
    · rw [e]; exact hw.1
    · exact wf_of_mem hw.2 e

theorem patchValuesWF_of_wf {p : JVal} (hp : p.WF) : PatchValuesWF p := by
  cases p with
  | arr ops =>
    intro op hm
    exact opValWF_of_wf (wf_of_mem (by simpa [JVal.WF] using hp) hm)
  | _ => trivial

/-- ATOMICITY for `jsoncons::json` (sorted objects), EXACT: whenever `apply_patch` reports an error,
    the document is identical to the one it was given — for every patch (all six operations, `-`,
    array shifting, the insert-else-replace fallback, root targets, `move` failing in its second
    half), under the representation invariant of the type (`WF`: every object sorted by key, hence
    keys unique) for the document and for the values carried by the patch. -/
theorem apply_atomic_sorted_values (d p : JVal) (hd : d.WF) (hp : PatchValuesWF p) :
    (applyPatch false d p).1 ≠ none → (applyPatch false d p).2 = d := by
  intro h
  cases p with
  | arr ops => exact applyLoop_atomic_sorted d ops d [] hp hd rfl h
  | _ => rfl

theorem apply_atomic_sorted (d p : JVal) (hd : d.WF) (hp : p.WF) :
    (applyPatch false d p).1 ≠ none → (applyPatch false d p).2 = d :=
  apply_atomic_sorted_values d p hd (patchValuesWF_of_wf hp)

/-- no operation of the patch is `remove` or `move` (decidable) -/
def patchNoRemoval : JVal → Bool
  | .arr ops => ops.all noRemoval
  | _ => true

/-- ATOMICITY, EXACT, for BOTH object flavours and WITHOUT any invariant on the document or the
    patch (duplicate keys, unsorted objects allowed), for patches without `remove` / `move`:
    the undo of add / replace / copy restores the document exactly. -/
theorem apply_atomic_no_removal (ordered : Bool) (d p : JVal) (hp : patchNoRemoval p = true) :
    (applyPatch ordered d p).1 ≠ none → (applyPatch ordered d p).2 = d := by
  intro h
  cases p with
  | arr ops =>
    have hops : ∀ op ∈ ops, noRemoval op = true := by simpa [patchNoRemoval, List.all_eq_true] using hp
    exact applyLoop_atomic_noRemoval ordered d ops d [] hops rfl h
  | _ => rfl

/-- after `k` successful operations the undo stack restores the original document (sorted objects) -/
theorem undo_inverts_op (t operation : JVal) (ht : t.WF) :
    ∀ s, unwind false (applyOp false t operation).2.1 ((applyOp false t operation).2.2 ++ s) = unwind false t s := by
  obtain ⟨t2, he, hu⟩ := applyOp_undoes Eq (fun _ => rfl) false t operation (Or.inr (remInv_sorted t ht))
  subst he; exact hu

/-! ### non-vacuity / regression witnesses (evaluated by the kernel) -/

def docA : JVal := .obj [([97], .int 1)]
def opRemoveA : JVal := .obj [(sOp, .str sRemove), (sPath, .str [47, 97])]
def opAddRoot7 : JVal := .obj [(sOp, .str sAdd), (sPath, .str []), (sValue, .int 7)]
def opTestRoot8 : JVal := .obj [(sOp, .str sTest), (sPath, .str []), (sValue, .int 8)]
def opFrob : JVal := .obj [(sOp, .str [102, 114, 111, 98]), (sPath, .str [47, 97]), (sValue, .int 2)]

example : applyPatch false docA (.arr [opRemoveA, opAddRoot7, opTestRoot8]) = (some .testFailed, docA) := by decide
example : applyPatch false docA (.arr [opFrob]) = (some .invalidPatch, docA) := by decide
example : applyPatch false docA (.arr [opRemoveA, opAddRoot7]) = (none, .int 7) := by decide

/-! non-vacuity of `apply_atomic_sorted`: three operations succeed and modify the document
    (append through `-`, `move` out of an object into an array, `remove` with shifting), the fourth fails -/
def doc2 : JVal := .obj [([97], .arr [.int 1, .int 2]), ([98], .obj [([99], .int 3)])]
def opAddDash : JVal := .obj [(sOp, .str sAdd), (sPath, .str [47, 97, 47, 45]), (sValue, .int 9)]
def opMoveCA0 : JVal := .obj [(sFrom, .str [47, 98, 47, 99]), (sOp, .str sMove), (sPath, .str [47, 97, 47, 48])]
def opRemoveA1 : JVal := .obj [(sOp, .str sRemove), (sPath, .str [47, 97, 47, 49])]
def opReplaceZ : JVal := .obj [(sOp, .str sReplace), (sPath, .str [47, 122]), (sValue, .int 1)]
def patch3 : JVal := .arr [opAddDash, opMoveCA0, opRemoveA1]
def patch4 : JVal := .arr [opAddDash, opMoveCA0, opRemoveA1, opReplaceZ]

example : applyPatch false doc2 patch3 = (none, .obj [([97], .arr [.int 3, .int 2, .int 9]), ([98], .obj [])]) := by decide
example : applyPatch false doc2 patch4 = (some .replaceFailed, doc2) := by decide
example : doc2.WF ∧ patch4.WF := by
  simp [doc2, patch4, opAddDash, opMoveCA0, opRemoveA1, opReplaceZ, JVal.WF, WFList, WFMembers, Assoc.Sorted, keyLt,
    sOp, sPath, sValue, sFrom]
example : (applyPatch false doc2 patch4).2 = doc2 :=
  apply_atomic_sorted doc2 patch4
    (by simp [doc2, JVal.WF, WFList, WFMembers, Assoc.Sorted, keyLt])
    (by simp [patch4, opAddDash, opMoveCA0, opRemoveA1, opReplaceZ, JVal.WF, WFList, WFMembers, Assoc.Sorted, keyLt,
          sOp, sPath, sValue, sFrom])
    (by decide)

/-- the invariant is needed: on an unsorted "sorted-flavour" object the undo of `remove` re-inserts the
    member at its sorted position, not where it was -/
example : applyPatch false (.obj [([98], .int 2), ([97], .int 1)])
    (.arr [.obj [(sOp, .str sRemove), (sPath, .str [47, 98])], opTestRoot8])
    = (some .testFailed, .obj [([97], .int 1), ([98], .int 2)]) := by decide

/-- insertion-ordered objects (`ojson`): the undo of `remove` re-appends the member LAST, so the document
    comes back equal only up to member order (DESIGN.md 9.7 "observed, not flagged") -/
example : applyPatch true (.obj [([97], .int 1), ([98], .int 2)]) (.arr [opRemoveA, opTestRoot8])
    = (some .testFailed, .obj [([98], .int 2), ([97], .int 1)]) := by decide

/-- non-vacuity of `apply_atomic_no_removal` on an ordered object with a duplicate key -/
def opCopyAB : JVal := .obj [(sOp, .str sCopy), (sFrom, .str [47, 97]), (sPath, .str [47, 98])]
def opAddA5 : JVal := .obj [(sOp, .str sAdd), (sPath, .str [47, 97]), (sValue, .int 5)]
example : patchNoRemoval (.arr [opCopyAB, opAddA5, opAddRoot7, opTestRoot8]) = true := by decide
example : applyPatch true (.obj [([97], .int 1), ([97], .int 2)]) (.arr [opCopyAB, opAddA5, opAddRoot7]) = (none, .int 7) := by decide
example : applyPatch true (.obj [([97], .int 1), ([97], .int 2)]) (.arr [opCopyAB, opAddA5, opAddRoot7, opTestRoot8])
    = (some .testFailed, .obj [([97], .int 1), ([97], .int 2)]) := by decide

end JV.Props.C15
