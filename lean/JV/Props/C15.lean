/-
  C15 — JSON Patch is RFC 6902-conformant and atomic.

  Model : JV.Model.Patch (jsonpatch.hpp apply_patch incl. definite_path, the insert-else-replace
          fallback, the undo log and the unwinder that stops at the first failing undo; from_diff).
  Spec  : JV.Spec.Rfc6902 (executed by the driver as the oracle of the correspondence run).

  Proved here
  * ATOMICITY of the model (the per-operation inversion lemmas for the undo log are in
    JV.Proofs.PatchUndoA–F; `undo_inverts_op` is the single-operation statement):
      apply_atomic_sorted     : d.WF → p.WF → (applyPatch false d p).1 ≠ none → (applyPatch false d p).2 = d
          `jsoncons::json`: EXACT, every patch (all six operations, `-`, array shifting, the
          insert-else-replace fallback, root targets, `move` failing in its second half).  `WF` = the
          representation invariant of the type (objects sorted by key ⇒ unique keys); for the patch only
          its `value` members need it (`apply_atomic_sorted_values`).  The invariant is needed (witness).
      apply_atomic_ordered    : UK d → UK p → (applyPatch true d p).1 ≠ none → JsonEq (applyPatch true d p).2 d
          `jsoncons::ojson`: UP TO MEMBER ORDER (`JsonEq a b := norm a = norm b`, `norm` sorts the members
          of every object; `norm_of_wf`: it is the identity on `WF` values), under unique keys (`UK`).
          Exact equality is FALSE there (witness: `{"a":1,"b":2}`, `[remove /a, test "" 8]` leaves
          `{"b":2,"a":1}` — the undo of remove/move re-appends the member last; DESIGN.md 9.7), and
          unique keys are needed (witness).  `apply_atomic_ordered_values` also gives `UK` of the result.
      apply_atomic            : both flavours in one statement, with `JsonEq`.
      apply_atomic_no_removal : patchNoRemoval p → (applyPatch o d p).1 ≠ none → (applyPatch o d p).2 = d
          EXACT for BOTH flavours with NO invariant at all when the patch has no `remove` / `move`.
  * the failure half that does not depend on the undo log, rejection of malformed operations,
    purity of `test`, root targets (D11, repaired).

  * RFC 6902 CONFORMANCE of the model, `jsoncons::json` (sorted objects), BOTH directions (helper lemmas
    in JV.Proofs.PatchSpecA–E; they rest on the C14 pointer lemmas and on `parse s = ok ts ↔ tokens s = some ts`):
      apply_refines_spec  : d.WF → p.WF → (applyPatch false d p).1 = none →
                              Rfc6902.applyPatch d p = some (applyPatch false d p).2
          (`apply_refines_spec_values`: only the patch's `value` members need the invariant;
           `apply_op_refines_spec`: the per-operation statement, all six operations, incl. `definite_path`'s
           resolution of a trailing `-` and the insert-else-replace fallback = RFC "add to an existing
           member replaces it")
      spec_success_implies_model_success : d.WF → PatchValuesWF p → PatchSmallRun d p →
                              Rfc6902.applyPatch d p = some r → applyPatch false d p = (none, r)
      apply_iff_spec      : applyPatch false d p = (none, r) ↔ Rfc6902.applyPatch d p = some r
          `PatchSmallRun`: every document of the reference run has arrays shorter than 2^64 (index tokens
          are read as `size_t`).  No deviation from RFC 6902 found for the sorted flavour; error KINDS are
          not compared.  The insertion-ordered flavour is not covered (D18: `test` on `ojson` is
          member-order sensitive).
  * DIFF LAW, `jsoncons::json` (JV.Proofs.PatchDiffA–D; `fromDiff_run`: the patch produced for a sub-document
    at `loc` rewrites exactly that sub-document of any host document):
      diff_law            : a.WF → b.WF → SmallArrays a → SmallArrays b →
                              applyPatch false a (.arr (fromDiff false [] a b)) = (none, b)
          for ALL documents (no restriction on arrays); both `WF` hypotheses are necessary (witnesses).

  Remaining gap of this property (checked on every run by the correspondence run against the Lean
  Spec and by the property oracle on the real code; see DESIGN.md):
      the insertion-ordered flavour (`ojson`, `ordered = true`) of `apply_refines_spec` and `diff_law`
      (there only up to member order, `JsonEq`; `test` is member-order sensitive, D18);
      `diff_law_spec` still assumes `PatchValuesWF` of the produced patch (its values are sub-values of `b`).
  Atomicity is a theorem about the MODEL's undo log; allocation failure inside the unwinder (D66) is
  outside the model.
-/
import JV.Proofs.Patch
import JV.Proofs.PatchUndoD
import JV.Proofs.PatchUndoF
import JV.Proofs.PatchSpecE
import JV.Proofs.PatchDiffD
namespace JV.Props.C15
open JV Model Model.Patch Model.Pointer
open JV.Model.JsonPath (UK UKList UKMembers)

/-- every operation that reports an error without having logged an undo entry has left the document untouched
    (for both object flavours; the only failing operation that logs an entry is `move` after its removal) -/
theorem failing_op_leaves_doc (ordered : Bool) (t operation : JVal)
    (h1 : (applyOp ordered t operation).1 ≠ none) (h2 : (applyOp ordered t operation).2.2 = []) :
    (applyOp ordered t operation).2.1 = t :=
  applyOp_err_doc ordered t operation h1 h2

/-- atomicity when the first operation is the one that fails -/
theorem atomic_at_first_failure (ordered : Bool) (d operation : JVal) (ops : List JVal)
    (h1 : (applyOp ordered d operation).1 ≠ none) (h2 : (applyOp ordered d operation).2.2 = []) :
    (applyPatch ordered d (.arr (operation :: ops))).2 = d := by
  have hd := applyOp_err_doc ordered d operation h1 h2
  simp only [applyPatch, applyLoop]
  cases he : (applyOp ordered d operation).1 with
  | none => exact absurd he h1
  | some e => simp [h2, unwind, hd]

/-- a patch that is not an array is rejected and nothing is touched -/
theorem non_array_patch_rejected (ordered : Bool) (d p : JVal) (h : p.isArray = false) :
    applyPatch ordered d p = (some .invalidPatch, d) := by
  cases p <;> simp_all [applyPatch, JVal.isArray]

/-- an operation object without "op", without "path", or whose path is not a JSON Pointer is `invalid_patch` -/
theorem malformed_operation_rejected (ordered : Bool) (d : JVal) (om : List (Bytes × JVal))
    (h : (Assoc.find sOp om).bind strOf = none ∨ (Assoc.find sPath om).bind strOf = none) :
    applyOp ordered d (.obj om) = (some .invalidPatch, d, []) := by
  unfold applyOp
  rcases h with h | h
  · simp [h]
  · cases h1 : (Assoc.find sOp om).bind strOf with
    | none => simp [h1]
    | some op => simp [h, h1]

/-- an "op" that is none of the six RFC 6902 operations is rejected (D10, repaired) -/
theorem unknown_op_rejected (ordered : Bool) (d : JVal) (om : List (Bytes × JVal)) (op path : Bytes) (loc : List Bytes)
    (h1 : (Assoc.find sOp om).bind strOf = some op) (h2 : (Assoc.find sPath om).bind strOf = some path)
    (h3 : parse path = .ok loc)
    (hu : op ≠ sTest ∧ op ≠ sAdd ∧ op ≠ sRemove ∧ op ≠ sReplace ∧ op ≠ sMove ∧ op ≠ sCopy) :
    applyOp ordered d (.obj om) = (some .invalidPatch, d, []) := by
  unfold applyOp
  simp [h1, h2, h3, hu.1, hu.2.1, hu.2.2.1, hu.2.2.2.1, hu.2.2.2.2.1, hu.2.2.2.2.2]

/-- `test` never modifies the document and logs nothing -/
theorem test_is_pure (d : JVal) (loc : List Bytes) (om : List (Bytes × JVal)) :
    (opTest d loc om).2 = (d, []) := by
  unfold opTest
  repeat' split
  all_goals rfl

/-- a root target goes through the replace path, whose undo entry restores the original document (D11, repaired) -/
theorem root_add_logs_replace (ordered : Bool) (d v : JVal) :
    addLike ordered d [] v = (true, v, [.replace [] d]) := by
  simp [addLike, Pointer.get, Pointer.apply]

/-! ### ATOMICITY: if any operation fails, the document is left as it was -/

/-- the `value` members of the patch's operation objects satisfy the representation invariant -/
def PatchValuesWF : JVal → Prop
  | .arr ops => ∀ op ∈ ops, OpValWF op
  | _ => True

theorem wf_of_mem {x : JVal} : ∀ {xs : List JVal}, WFList xs → x ∈ xs → x.WF
  | [], _, h => by simp at h
  | y :: ys, hw, h => by
    rcases List.mem_cons.1 h with e | e
    · rw [e]; exact hw.1
    · exact wf_of_mem hw.2 e

theorem patchValuesWF_of_wf {p : JVal} (hp : p.WF) : PatchValuesWF p := by
  cases p with
  | arr ops =>
    intro op hm
    exact opValWF_of_wf (wf_of_mem (by simpa [JVal.WF] using hp) hm)
  | _ => trivial

/-- ATOMICITY for `jsoncons::json` (sorted objects), EXACT: whenever `apply_patch` reports an error,
    the document is identical to the one it was given — for every patch (all six operations, `-`,
    array shifting, the insert-else-replace fallback, root targets, `move` failing in its second
    half), under the representation invariant of the type (`WF`: every object sorted by key, hence
    keys unique) for the document and for the values carried by the patch. -/
theorem apply_atomic_sorted_values (d p : JVal) (hd : d.WF) (hp : PatchValuesWF p) :
    (applyPatch false d p).1 ≠ none → (applyPatch false d p).2 = d := by
  intro h
  cases p with
  | arr ops => exact applyLoop_atomic_sorted d ops d [] hp hd rfl h
  | _ => rfl

theorem apply_atomic_sorted (d p : JVal) (hd : d.WF) (hp : p.WF) :
    (applyPatch false d p).1 ≠ none → (applyPatch false d p).2 = d :=
  apply_atomic_sorted_values d p hd (patchValuesWF_of_wf hp)

/-! ### RFC 6902 CONFORMANCE: a run that commits has computed what the RFC prescribes -/

/-- PER OPERATION: an operation object that `apply_patch` performs successfully on a `jsoncons::json`
    document is a well-formed RFC 6902 operation (`Rfc6902.decode` accepts it, with the same reference
    tokens) and the document afterwards is exactly the one `Rfc6902.applyOp` prescribes — for all six
    operations, including `definite_path`'s resolution of a trailing `-` and the insert-else-replace
    fallback (RFC 6902 §4.1: `add` to an existing member replaces it). -/
theorem apply_op_refines_spec (t operation : JVal) (ht : t.WF) (h : (applyOp false t operation).1 = none) :
    (Spec.Rfc6902.decode operation).bind (Spec.Rfc6902.applyOp t) = some (applyOp false t operation).2.1 :=
  applyOp_refines t operation ht h

/-- RFC 6902 CONFORMANCE for `jsoncons::json` (sorted objects): whenever `apply_patch` reports no error,
    the document it leaves is exactly the one the RFC 6902 reference computes — for every patch, under the
    representation invariant of the type for the document and for the values carried by the patch. -/
theorem apply_refines_spec_values (d p : JVal) (hd : d.WF) (hp : PatchValuesWF p)
    (h : (applyPatch false d p).1 = none) :
    Spec.Rfc6902.applyPatch d p = some (applyPatch false d p).2 := by
  cases p with
  | arr ops => exact applyLoop_refines ops d [] hd hp h
  | _ => simp [applyPatch] at h

theorem apply_refines_spec (d p : JVal) (hd : d.WF) (hp : p.WF) (h : (applyPatch false d p).1 = none) :
    Spec.Rfc6902.applyPatch d p = some (applyPatch false d p).2 :=
  apply_refines_spec_values d p hd (patchValuesWF_of_wf hp) h

/-- `apply_patch`'s pointer parser accepts exactly the RFC 6901 JSON Pointers, with the same reference tokens -/
theorem patch_path_iff_rfc6901 (s : Bytes) (ts : List Bytes) : parse s = .ok ts ↔ Spec.Rfc6901.tokens s = some ts :=
  parse_iff_tokens s ts

/-- every document the reference run passes through (incl. the one between the two halves of a `move`)
    has arrays shorter than 2^64 — always true of C++ containers; array-index tokens are read as `size_t` -/
def PatchSmallRun (d : JVal) : JVal → Prop
  | .arr ops => SmallRun d ops
  | _ => True

/-- PER OPERATION, CONVERSE: every operation object the RFC 6902 reference decodes and performs,
    `apply_patch` performs without error -/
theorem spec_op_success_implies_model_success (t operation r : JVal) (ht : t.WF) (hs : SmallArrays t)
    (hmid : MoveMidSmall t)
    (h : (Spec.Rfc6902.decode operation).bind (Spec.Rfc6902.applyOp t) = some r) :
    applyOp false t operation = (none, r, (applyOp false t operation).2.2) := by
  have hok := applyOp_complete t operation r ht hs hmid h
  have href := applyOp_refines t operation ht hok
  unfold specStep at href
  rw [h] at href
  simp only [Option.some.injEq] at href
  rw [href, ← hok]

/-- CONVERSE of `apply_refines_spec`: whenever the RFC 6902 reference applies the patch, `apply_patch`
    (on `jsoncons::json`) reports no error and leaves the same document.  No deviation of the model from
    RFC 6902 in the accept direction was found: the only hypothesis besides the representation invariant
    is that arrays stay shorter than 2^64. -/
theorem spec_success_implies_model_success (d p r : JVal) (hd : d.WF) (hp : PatchValuesWF p)
    (hs : PatchSmallRun d p) (h : Spec.Rfc6902.applyPatch d p = some r) : applyPatch false d p = (none, r) := by
  cases p with
  | arr ops =>
    have hok := applyLoop_complete ops d [] r hd hp hs h
    have href := applyLoop_refines ops d [] hd hp hok
    simp only [Spec.Rfc6902.applyPatch] at h
    rw [h] at href
    simp only [Option.some.injEq] at href
    simp only [applyPatch]
    rw [href, ← hok]
  | _ => simp [Spec.Rfc6902.applyPatch] at h

/-- RFC 6902 CONFORMANCE, both directions: on `jsoncons::json` documents `apply_patch` succeeds exactly
    when the reference does, with the same result (error kinds are not compared) -/
theorem apply_iff_spec (d p r : JVal) (hd : d.WF) (hp : PatchValuesWF p) (hs : PatchSmallRun d p) :
    applyPatch false d p = (none, r) ↔ Spec.Rfc6902.applyPatch d p = some r := by
  constructor
  · intro h
    have h1 : (applyPatch false d p).1 = none := by rw [h]
    have := apply_refines_spec_values d p hd hp h1
    rw [h] at this; exact this
  · exact spec_success_implies_model_success d p r hd hp hs

/-! ### the DIFF LAW: `from_diff(a, b)` applied to `a` gives `b` -/

/-- DIFF LAW for `jsoncons::json` (sorted objects): `apply_patch(a, from_diff(a, b))` reports no error and
    leaves exactly `b` — for all documents (objects: removed / changed / added members; arrays:
    element-wise up to the common length, then removals from the end or appends; scalars and kind
    changes: replace; names with `/` `~`, a member named `-`), under the representation invariant of
    the type (needed for both, witnesses below) and arrays shorter than 2^64. -/
theorem diff_law (a b : JVal) (ha : a.WF) (hb : b.WF) (hsa : SmallArrays a) (hsb : SmallArrays b) :
    applyPatch false a (.arr (fromDiff false [] a b)) = (none, b) :=
  diff_law_sorted a b ha hb hsa hsb

/-- … hence the patch `from_diff` produces is also one the RFC 6902 reference turns `a` into `b` with -/
theorem diff_law_spec (a b : JVal) (ha : a.WF) (hb : b.WF) (hsa : SmallArrays a) (hsb : SmallArrays b)
    (hp : PatchValuesWF (.arr (fromDiff false [] a b))) :
    Spec.Rfc6902.applyPatch a (.arr (fromDiff false [] a b)) = some b := by
  have h := diff_law a b ha hb hsa hsb
  have := apply_refines_spec_values a _ ha hp (by rw [h])
  rw [h] at this; exact this

/-- no operation of the patch is `remove` or `move` (decidable) -/
def patchNoRemoval : JVal → Bool
  | .arr ops => ops.all noRemoval
  | _ => true

/-- ATOMICITY, EXACT, for BOTH object flavours and WITHOUT any invariant on the document or the
    patch (duplicate keys, unsorted objects allowed), for patches without `remove` / `move`:
    the undo of add / replace / copy restores the document exactly. -/
theorem apply_atomic_no_removal (ordered : Bool) (d p : JVal) (hp : patchNoRemoval p = true) :
    (applyPatch ordered d p).1 ≠ none → (applyPatch ordered d p).2 = d := by
  intro h
  cases p with
  | arr ops =>
    have hops : ∀ op ∈ ops, noRemoval op = true := by simpa [patchNoRemoval, List.all_eq_true] using hp
    exact applyLoop_atomic_noRemoval ordered d ops d [] hops rfl h
  | _ => rfl

/-! #### insertion-ordered objects (`jsoncons::ojson`): atomic up to member order -/

/-- equal as JSON values: `norm` sorts the members of every object (arrays keep their order) -/
def JsonEq (a b : JVal) : Prop := norm a = norm b

theorem insertSorted_of_allGt {k : Bytes} {v : JVal} : ∀ {ms : List (Bytes × JVal)}, Assoc.AllGt k ms →
    Assoc.insertSorted k v ms = (k, v) :: ms
  | [], _ => rfl
  | (k', v') :: ms, h => by
    have : keyLt k' k = false := Assoc.keyLt_asymm h.1
    simp [Assoc.insertSorted, this]

mutual
  /-- `norm` is the identity on values that satisfy the sorted representation invariant, so on
      `jsoncons::json` values `JsonEq` is plain equality -/
  theorem norm_of_wf : ∀ t : JVal, t.WF → norm t = t
    | .arr xs, h => by simp only [norm]; rw [normList_of_wf xs (by simpa [JVal.WF] using h)]
    | .obj ms, h => by
      have hw : Assoc.Sorted ms ∧ WFMembers ms := by simpa [JVal.WF] using h
      simp only [norm]
      rw [normMembers_of_wf ms hw.2, sortMembers_of_sorted ms hw.1]
    | .null, _ => rfl
    | .bool _, _ => rfl
    | .int _, _ => rfl
    | .str _, _ => rfl
  theorem normList_of_wf : ∀ xs : List JVal, WFList xs → normList xs = xs
    | [], _ => rfl
    | x :: xs, h => by simp only [normList]; rw [norm_of_wf x h.1, normList_of_wf xs h.2]
  theorem normMembers_of_wf : ∀ ms : List (Bytes × JVal), WFMembers ms → normMembers ms = ms
    | [], _ => rfl
    | (k, x) :: ms, h => by simp only [normMembers]; rw [norm_of_wf x h.1, normMembers_of_wf ms h.2]
  theorem sortMembers_of_sorted : ∀ ms : List (Bytes × JVal), Assoc.Sorted ms → sortMembers ms = ms
    | [], _ => rfl
    | (k, v) :: ms, h => by
      simp only [sortMembers]
      rw [sortMembers_of_sorted ms h.tail, insertSorted_of_allGt h.allGt]
end

theorem jsonEq_iff_eq_of_wf (a b : JVal) (ha : a.WF) (hb : b.WF) : JsonEq a b ↔ a = b := by
  unfold JsonEq; rw [norm_of_wf a ha, norm_of_wf b hb]

/-- the `value` members of the patch's operation objects have unique keys -/
def PatchValuesUK : JVal → Prop
  | .arr ops => ∀ op ∈ ops, OpValUK op
  | _ => True

theorem uk_of_mem_list {x : JVal} : ∀ {xs : List JVal}, UKList xs → x ∈ xs → UK x
  | [], _, h => by simp at h
  | y :: ys, hw, h => by
    rcases List.mem_cons.1 h with e | e
    · rw [e]; exact hw.1
    · exact uk_of_mem_list hw.2 e

theorem patchValuesUK_of_uk {p : JVal} (hp : UK p) : PatchValuesUK p := by
  cases p with
  | arr ops =>
    intro op hm
    exact opValUK_of_uk (uk_of_mem_list (by simpa [UK] using hp) hm)
  | _ => trivial

/-- ATOMICITY for `jsoncons::ojson` (insertion-ordered objects), UP TO MEMBER ORDER: whenever
    `apply_patch` reports an error, the document is equal as a JSON value to the one it was given, and
    still has unique keys — for every patch, under the unique-keys invariant of `basic_json` for the
    document and for the values carried by the patch.  Exact equality does NOT hold (witness below):
    the undo of `remove` / `move` re-appends the removed member last. -/
theorem apply_atomic_ordered_values (d p : JVal) (hd : UK d) (hp : PatchValuesUK p) :
    (applyPatch true d p).1 ≠ none → JsonEq (applyPatch true d p).2 d ∧ UK (applyPatch true d p).2 := by
  intro h
  cases p with
  | arr ops =>
    have := applyLoop_atomic_ordered d ops d [] hp hd logUK_nil (REq.refl d) h
    exact ⟨this.2, this.1 hd⟩
  | _ => exact ⟨rfl, hd⟩

theorem apply_atomic_ordered (d p : JVal) (hd : UK d) (hp : UK p) :
    (applyPatch true d p).1 ≠ none → JsonEq (applyPatch true d p).2 d :=
  fun h => (apply_atomic_ordered_values d p hd (patchValuesUK_of_uk hp) h).1

/-- ATOMICITY (the statement of C15 for the model, both flavours): under the representation invariant
    of the object flavour — sorted unique keys for `json`, unique keys for `ojson` — a failing patch
    leaves the document equal as a JSON value (`JsonEq`; for `json` this is `=`, see `apply_atomic_sorted`). -/
theorem apply_atomic (ordered : Bool) (d p : JVal)
    (hd : if ordered then UK d else d.WF) (hp : if ordered then UK p else p.WF) :
    (applyPatch ordered d p).1 ≠ none → JsonEq (applyPatch ordered d p).2 d := by
  intro h
  cases ordered with
  | true => exact apply_atomic_ordered d p (by simpa using hd) (by simpa using hp) h
  | false =>
    have := apply_atomic_sorted d p (by simpa using hd) (by simpa using hp) h
    unfold JsonEq; rw [this]

/-- after `k` successful operations the undo stack restores the original document (sorted objects) -/
theorem undo_inverts_op (t operation : JVal) (ht : t.WF) :
    ∀ s, unwind false (applyOp false t operation).2.1 ((applyOp false t operation).2.2 ++ s) = unwind false t s := by
  obtain ⟨t2, he, hu⟩ := applyOp_undoes Eq (fun _ => rfl) false t operation (Or.inr (remInv_sorted t ht))
  subst he; exact hu

/-! ### non-vacuity / regression witnesses (evaluated by the kernel) -/

def docA : JVal := .obj [([97], .int 1)]
def opRemoveA : JVal := .obj [(sOp, .str sRemove), (sPath, .str [47, 97])]
def opAddRoot7 : JVal := .obj [(sOp, .str sAdd), (sPath, .str []), (sValue, .int 7)]
def opTestRoot8 : JVal := .obj [(sOp, .str sTest), (sPath, .str []), (sValue, .int 8)]
def opFrob : JVal := .obj [(sOp, .str [102, 114, 111, 98]), (sPath, .str [47, 97]), (sValue, .int 2)]

example : applyPatch false docA (.arr [opRemoveA, opAddRoot7, opTestRoot8]) = (some .testFailed, docA) := by decide
example : applyPatch false docA (.arr [opFrob]) = (some .invalidPatch, docA) := by decide
example : applyPatch false docA (.arr [opRemoveA, opAddRoot7]) = (none, .int 7) := by decide

/-! non-vacuity of `apply_atomic_sorted`: three operations succeed and modify the document
    (append through `-`, `move` out of an object into an array, `remove` with shifting), the fourth fails -/
def doc2 : JVal := .obj [([97], .arr [.int 1, .int 2]), ([98], .obj [([99], .int 3)])]
def opAddDash : JVal := .obj [(sOp, .str sAdd), (sPath, .str [47, 97, 47, 45]), (sValue, .int 9)]
def opMoveCA0 : JVal := .obj [(sFrom, .str [47, 98, 47, 99]), (sOp, .str sMove), (sPath, .str [47, 97, 47, 48])]
def opRemoveA1 : JVal := .obj [(sOp, .str sRemove), (sPath, .str [47, 97, 47, 49])]
def opReplaceZ : JVal := .obj [(sOp, .str sReplace), (sPath, .str [47, 122]), (sValue, .int 1)]
def patch3 : JVal := .arr [opAddDash, opMoveCA0, opRemoveA1]
def patch4 : JVal := .arr [opAddDash, opMoveCA0, opRemoveA1, opReplaceZ]

example : applyPatch false doc2 patch3 = (none, .obj [([97], .arr [.int 3, .int 2, .int 9]), ([98], .obj [])]) := by decide
example : applyPatch false doc2 patch4 = (some .replaceFailed, doc2) := by decide
example : doc2.WF ∧ patch4.WF := by
  simp [doc2, patch4, opAddDash, opMoveCA0, opRemoveA1, opReplaceZ, JVal.WF, WFList, WFMembers, Assoc.Sorted, keyLt,
    sOp, sPath, sValue, sFrom]
example : (applyPatch false doc2 patch4).2 = doc2 :=
  apply_atomic_sorted doc2 patch4
    (by simp [doc2, JVal.WF, WFList, WFMembers, Assoc.Sorted, keyLt])
    (by simp [patch4, opAddDash, opMoveCA0, opRemoveA1, opReplaceZ, JVal.WF, WFList, WFMembers, Assoc.Sorted, keyLt,
          sOp, sPath, sValue, sFrom])
    (by decide)

/-- the invariant is needed: on an unsorted "sorted-flavour" object the undo of `remove` re-inserts the
    member at its sorted position, not where it was -/
example : applyPatch false (.obj [([98], .int 2), ([97], .int 1)])
    (.arr [.obj [(sOp, .str sRemove), (sPath, .str [47, 98])], opTestRoot8])
    = (some .testFailed, .obj [([97], .int 1), ([98], .int 2)]) := by decide

/-- insertion-ordered objects (`ojson`): the undo of `remove` re-appends the member LAST, so the document
    comes back equal only up to member order (DESIGN.md 9.7 "observed, not flagged") -/
example : applyPatch true (.obj [([97], .int 1), ([98], .int 2)]) (.arr [opRemoveA, opTestRoot8])
    = (some .testFailed, .obj [([98], .int 2), ([97], .int 1)]) := by decide

/-- non-vacuity of `apply_atomic_no_removal` on an ordered object with a duplicate key -/
def opCopyAB : JVal := .obj [(sOp, .str sCopy), (sFrom, .str [47, 97]), (sPath, .str [47, 98])]
def opAddA5 : JVal := .obj [(sOp, .str sAdd), (sPath, .str [47, 97]), (sValue, .int 5)]
example : patchNoRemoval (.arr [opCopyAB, opAddA5, opAddRoot7, opTestRoot8]) = true := by decide
example : applyPatch true (.obj [([97], .int 1), ([97], .int 2)]) (.arr [opCopyAB, opAddA5, opAddRoot7]) = (none, .int 7) := by decide
example : applyPatch true (.obj [([97], .int 1), ([97], .int 2)]) (.arr [opCopyAB, opAddA5, opAddRoot7, opTestRoot8])
    = (some .testFailed, .obj [([97], .int 1), ([97], .int 2)]) := by decide

/-! non-vacuity of `apply_atomic_ordered`: three operations succeed (remove of an object member, append
    through `-`, `move` of a member into the array), the fourth fails; the document comes back with its
    members in a different order -/
def doc3 : JVal := .obj [([97], .int 1), ([98], .arr [.int 1]), ([99], .int 2)]
def opAddBDash : JVal := .obj [(sOp, .str sAdd), (sPath, .str [47, 98, 47, 45]), (sValue, .int 5)]
def opMoveCB0 : JVal := .obj [(sOp, .str sMove), (sFrom, .str [47, 99]), (sPath, .str [47, 98, 47, 48])]
def patchO3 : JVal := .arr [opRemoveA, opAddBDash, opMoveCB0]
def patchO4 : JVal := .arr [opRemoveA, opAddBDash, opMoveCB0, opTestRoot8]
example : applyPatch true doc3 patchO3 = (none, .obj [([98], .arr [.int 2, .int 1, .int 5])]) := by decide
example : applyPatch true doc3 patchO4
    = (some .testFailed, .obj [([98], .arr [.int 1]), ([99], .int 2), ([97], .int 1)]) := by decide
example : JsonEq (applyPatch true doc3 patchO4).2 doc3 :=
  apply_atomic_ordered doc3 patchO4
    (by simp [doc3, UK, UKList, UKMembers, Assoc.keys])
    (by simp [patchO4, opRemoveA, opAddBDash, opMoveCB0, opTestRoot8, UK, UKList, UKMembers, Assoc.keys,
          sOp, sPath, sValue, sFrom, sRemove, sAdd, sMove, sTest])
    (by decide)
/-- the unique-keys invariant is needed: with a duplicate key the undo of `remove` overwrites the
    shadowed member instead of re-creating the removed one -/
example : applyPatch true (.obj [([97], .int 1), ([97], .int 2)]) (.arr [opRemoveA, opTestRoot8])
    = (some .testFailed, .obj [([97], .int 1)]) := by decide

/-! non-vacuity of `apply_refines_spec` / `apply_iff_spec`: the three-operation patch above (append through
    `-`, `move` out of an object into an array, `remove` with shifting) and the insert-else-replace
    fallback (`add` to an existing member replaces it, RFC 6902 §4.1) -/
example : Spec.Rfc6902.applyPatch doc2 patch3 = some (.obj [([97], .arr [.int 3, .int 2, .int 9]), ([98], .obj [])]) := by decide
example : Spec.Rfc6902.applyPatch doc2 patch3 = some (applyPatch false doc2 patch3).2 :=
  apply_refines_spec doc2 patch3
    (by simp [doc2, JVal.WF, WFList, WFMembers, Assoc.Sorted, keyLt])
    (by simp [patch3, opAddDash, opMoveCA0, opRemoveA1, JVal.WF, WFList, WFMembers, Assoc.Sorted, keyLt,
          sOp, sPath, sValue, sFrom])
    (by decide)
example : applyPatch false docA (.arr [opAddA5]) = (none, .obj [([97], .int 5)])
    ∧ Spec.Rfc6902.applyPatch docA (.arr [opAddA5]) = some (.obj [([97], .int 5)]) := by decide
-- both reject: `-` for replace, an index with a leading zero, a `test` that fails
example : (applyPatch false doc2 (.arr [.obj [(sOp, .str sReplace), (sPath, .str [47, 97, 47, 45]), (sValue, .int 1)]])).1 ≠ none
    ∧ Spec.Rfc6902.applyPatch doc2 (.arr [.obj [(sOp, .str sReplace), (sPath, .str [47, 97, 47, 45]), (sValue, .int 1)]]) = none := by decide
example : (applyPatch false doc2 (.arr [.obj [(sOp, .str sRemove), (sPath, .str [47, 97, 47, 48, 49])]])).1 ≠ none
    ∧ Spec.Rfc6902.applyPatch doc2 (.arr [.obj [(sOp, .str sRemove), (sPath, .str [47, 97, 47, 48, 49])]]) = none := by decide

/-! non-vacuity of `diff_law`, and the representation invariant is needed for both documents -/
def docB : JVal := .obj [([97], .arr [.int 1, .obj [([45], .null)], .int 3]), ([99, 47, 126], .bool true)]
def docC : JVal := .obj [([97], .arr [.int 1, .obj [([45], .int 2), ([120], .null)]]), ([98], .str [120]), ([99, 47, 126], .arr [])]
example : applyPatch false docB (.arr (fromDiff false [] docB docC)) = (none, docC) := by decide
example : applyPatch false docC (.arr (fromDiff false [] docC docB)) = (none, docB) := by decide
example : (fromDiff false [] docB docC).length = 5 := by decide
example : applyPatch false (.obj []) (.arr (fromDiff false [] (.obj []) (.obj [([98], .int 1), ([97], .int 2)])))
    = (none, .obj [([97], .int 2), ([98], .int 1)]) := by decide
example : applyPatch false (.obj [([98], .int 1), ([97], .int 2)])
    (.arr (fromDiff false [] (.obj [([98], .int 1), ([97], .int 2)]) (.obj [([97], .int 2), ([98], .int 1)])))
    = (none, .obj [([98], .int 1), ([97], .int 2)]) := by decide

end JV.Props.C15
