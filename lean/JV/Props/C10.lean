/-
  C10 — resource limits hold against hostile input.

  Proved here:
  * the payload reader every binary decoder uses for strings, byte strings and typed arrays
    (Model JV.Model.ReadLedger = source_reader<Source>::read, source.hpp:737-815): whatever length the input
    CLAIMS, no buffer resize ever exceeds the bytes that actually arrived by more than one chunk — memory
    follows supplied data, for every claimed length, available amount and chunk size;
  * the nesting limit of the RFC 8259 reference parser is exact at every depth: k+1 nested arrays are
    accepted iff k+1 ≤ max_nesting_depth (the real parsers and encoders of all five formats are compared
    with "accept at the limit, refuse one beyond" on every run for limits 0…100 and three container shapes).

  Observed, not proved (runtime facts no Lean model exhibits): actual heap footprint (counting operator new
  around the real decoders on claimed lengths 2^20…2^62, buffer/iterator/stream sources), actual stack use of
  destroy / copy / compare / dump on values nested 10^3…10^6 deep, UBJSON max_items on every container form.
-/
import JV.Proofs.ReadLedger
import JV.Proofs.JsonDepth
import JV.Proofs.JsonParserDepth
namespace JV.Props.C10
open JV Model.ReadLedger Spec.Rfc8259

/-- however large the claimed `length`, every size the payload buffer is resized to is at most
    (bytes the source actually had) + (one chunk) -/
theorem memory_follows_supplied_data (k length avail : Nat) : ∀ r ∈ (read k length avail).ledger, r ≤ avail + k :=
  resize_bounded k length avail

/-- and what ends up in the buffer is no more than what was supplied -/
theorem buffer_le_supplied (k length avail : Nat) : (read k length avail).size ≤ avail :=
  size_le_supplied k length avail

/-- the nesting limit is exact: k+1 nested arrays are accepted iff k+1 ≤ max_nesting_depth -/
theorem json_depth_limit_exact (fl : Flags) (k : Nat) :
    (parseText fl (nested k [])).isSome = decide (k + 1 ≤ fl.maxDepth) :=
  depth_limit_exact fl k

/-- … at any position inside a document: with `depth` containers already open -/
theorem json_depth_limit_inner (fl : Flags) (k depth fuel : Nat) (rest : Bytes) (hf : 2 * k + 1 ≤ fuel) :
    parseValue fl fuel depth (nested k rest) = if depth + (k + 1) ≤ fl.maxDepth then some (nestV k, rest) else none :=
  nested_arrays fl k depth fuel rest hf

/-! ### non-vacuity -/
example : (read 16384 (2 ^ 62) 5).ledger = [16384, 5] := by decide
example : (read 4 10 100).ledger = [4, 8, 10] := by decide
example : nested 2 [] = [91, 91, 91, 93, 93, 93] := by decide


/-- the parser MODEL (JV.Model.JsonParser, tied to json_parser.hpp state by state): whatever the input, a parser that has not
    reported an error is never nested deeper than `max_nesting_depth` -/
theorem json_parser_level_bounded (cfg : Model.JsonParser.Cfg) (text : Bytes)
    (h : (Model.JsonParser.feed cfg Model.JsonParser.init text).err = none) :
    (Model.JsonParser.feed cfg Model.JsonParser.init text).level ≤ cfg.maxDepth :=
  Model.JsonParser.levelOK_feed cfg _ text (Model.JsonParser.levelOK_init cfg) h

/-- … and the test is exact on both container-opening paths: refused at the limit, admitted below it -/
theorem json_parser_limit_exact (cfg : Model.JsonParser.Cfg) (s : Model.JsonParser.St) :
    (s.level = cfg.maxDepth → (Model.JsonParser.beginArray cfg s).err = some 5 ∧ (Model.JsonParser.beginObject cfg s).err = some 5) ∧
    (s.level < cfg.maxDepth → (Model.JsonParser.beginArray cfg s).level = s.level + 1 ∧ (Model.JsonParser.beginObject cfg s).level = s.level + 1) :=
  ⟨fun h => ⟨Model.JsonParser.beginArray_at_limit cfg s h, Model.JsonParser.beginObject_at_limit cfg s h⟩,
   fun h => ⟨(Model.JsonParser.beginArray_below_limit cfg s h).2, (Model.JsonParser.beginObject_below_limit cfg s h).2⟩⟩

end JV.Props.C10
