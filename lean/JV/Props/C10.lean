/-
  C10 — resource limits hold against hostile input.

  Proved here:
  * the payload reader every binary decoder uses for strings, byte strings and typed arrays
    (Model JV.Model.ReadLedger = source_reader<Source>::read, source.hpp:737-815): whatever length the input
    CLAIMS, no buffer resize ever exceeds the bytes that actually arrived by more than one chunk — memory
    follows supplied data, for every claimed length, available amount and chunk size;
  * the nesting limit of the RFC 8259 reference parser is exact at every depth: k+1 nested arrays are
    accepted iff k+1 ≤ max_nesting_depth (the real parsers and encoders of all five formats are compared
    with "accept at the limit, refuse one beyond" on every run for limits 0…100 and three container shapes).

  * the CBOR decoder MODEL (JV.Model.CborParser = cbor_parser.hpp, tied to the real decoder by differential testing, C07), for EVERY
    input: a delivered value is nested at most max_nesting_depth deep (`cbor_value_depth_le_limit`); on k definite one-element
    arrays, k one-member maps and k indefinite arrays around a scalar the limit is exact — accepted iff k ≤ max_nesting_depth,
    otherwise exactly max_nesting_depth_exceeded, at any position in a document (`cbor_depth_limit_exact`, `cbor_depth_limit_inner`):
    the test is `++nesting_depth_ > max_nesting_depth_`, accept AT the limit, refuse one above;
  * claimed lengths need data (same model): the weight of a delivered value — one per node plus every string byte — is at most
    the number of input bytes consumed (`cbor_output_le_input`), so what the visitor is handed is proportional to the bytes
    actually supplied; a definite string header claiming n bytes over fewer remaining bytes is unexpected_eof
    (`cbor_claimed_length_needs_data`), a definite array / map header claiming n elements / members over fewer than n / 2·n
    remaining bytes is never accepted (`cbor_claimed_count_needs_data`), whatever n < 2^64 is.

  Observed, not proved (runtime facts no Lean model exhibits): actual heap footprint (counting operator new
  around the real decoders on claimed lengths 2^20…2^62, buffer/iterator/stream sources), actual stack use of
  destroy / copy / compare / dump on values nested 10^3…10^6 deep, UBJSON max_items on every container form.
-/
import JV.Proofs.ReadLedger
import JV.Proofs.JsonDepth
import JV.Proofs.JsonParserDepth
import JV.Proofs.CborParserDepth
import JV.Proofs.CborParserClaims
namespace JV.Props.C10
open JV Model.ReadLedger Spec.Rfc8259

/-- however large the claimed `length`, every size the payload buffer is resized to is at most
    (bytes the source actually had) + (one chunk) -/
theorem memory_follows_supplied_data (k length avail : Nat) : ∀ r ∈ (read k length avail).ledger, r ≤ avail + k :=
  resize_bounded k length avail

/-- and what ends up in the buffer is no more than what was supplied -/
theorem buffer_le_supplied (k length avail : Nat) : (read k length avail).size ≤ avail :=
  size_le_supplied k length avail

/-- the nesting limit is exact: k+1 nested arrays are accepted iff k+1 ≤ max_nesting_depth -/
theorem json_depth_limit_exact (fl : Flags) (k : Nat) :
    (parseText fl (nested k [])).isSome = decide (k + 1 ≤ fl.maxDepth) :=
  depth_limit_exact fl k

/-- … at any position inside a document: with `depth` containers already open -/
theorem json_depth_limit_inner (fl : Flags) (k depth fuel : Nat) (rest : Bytes) (hf : 2 * k + 1 ≤ fuel) :
    parseValue fl fuel depth (nested k rest) = if depth + (k + 1) ≤ fl.maxDepth then some (nestV k, rest) else none :=
  nested_arrays fl k depth fuel rest hf

/-! ### non-vacuity -/
example : (read 16384 (2 ^ 62) 5).ledger = [16384, 5] := by decide
example : (read 4 10 100).ledger = [4, 8, 10] := by decide
example : nested 2 [] = [91, 91, 91, 93, 93, 93] := by decide


/-- the parser MODEL (JV.Model.JsonParser, tied to json_parser.hpp state by state): whatever the input, a parser that has not
    reported an error is never nested deeper than `max_nesting_depth` -/
theorem json_parser_level_bounded (cfg : Model.JsonParser.Cfg) (text : Bytes)
    (h : (Model.JsonParser.feed cfg Model.JsonParser.init text).err = none) :
    (Model.JsonParser.feed cfg Model.JsonParser.init text).level ≤ cfg.maxDepth :=
  Model.JsonParser.levelOK_feed cfg _ text (Model.JsonParser.levelOK_init cfg) h

/-- … and the test is exact on both container-opening paths: refused at the limit, admitted below it -/
theorem json_parser_limit_exact (cfg : Model.JsonParser.Cfg) (s : Model.JsonParser.St) :
    (s.level = cfg.maxDepth → (Model.JsonParser.beginArray cfg s).err = some 5 ∧ (Model.JsonParser.beginObject cfg s).err = some 5) ∧
    (s.level < cfg.maxDepth → (Model.JsonParser.beginArray cfg s).level = s.level + 1 ∧ (Model.JsonParser.beginObject cfg s).level = s.level + 1) :=
  ⟨fun h => ⟨Model.JsonParser.beginArray_at_limit cfg s h, Model.JsonParser.beginObject_at_limit cfg s h⟩,
   fun h => ⟨(Model.JsonParser.beginArray_below_limit cfg s h).2, (Model.JsonParser.beginObject_below_limit cfg s h).2⟩⟩

/-! ### the CBOR decoder model (cbor_parser.hpp) -/

/-- whatever the input: a value the decoder delivers is nested at most `max_nesting_depth` deep -/
theorem cbor_value_depth_le_limit (d : Nat) (bs : Bytes) (v : Model.CborParser.Item) (rest : Bytes)
    (h : Model.CborParser.decode d bs = .ok v rest) : v.depth ≤ d :=
  Model.CborParser.decode_depth_le h

/-- … also from inside a document: delivered from level `depth ≤ max_nesting_depth`, at most `max_nesting_depth - depth` deeper -/
theorem cbor_value_depth_le_limit_inner (d fuel depth : Nat) (bs : Bytes) (v : Model.CborParser.Item) (rest : Bytes)
    (hd : depth ≤ d) (h : Model.CborParser.item d fuel depth bs = .ok v rest) : depth + v.depth ≤ d :=
  (Model.CborParser.depth_all d fuel).1 depth bs v rest hd h

/-- the limit is exact on three container shapes around a one-byte integer `n`: k definite one-element arrays (0x81…), k definite
    one-member maps with the empty text key (0xa1 0x60 …), k indefinite arrays (0x9f … 0xff): accepted iff k ≤ max_nesting_depth,
    and refused with exactly max_nesting_depth_exceeded one above -/
theorem cbor_depth_limit_exact (d k n : Nat) (hn : n < 24) :
    Model.CborParser.decode d (Model.CborParser.nestArr k [n]) =
      (if k ≤ d then .ok (Model.CborParser.nestArrV k (.uint n)) [] else .fail (.err .maxNestingDepthExceeded)) ∧
    Model.CborParser.decode d (Model.CborParser.nestMap k [n]) =
      (if k ≤ d then .ok (Model.CborParser.nestMapV k (.uint n)) [] else .fail (.err .maxNestingDepthExceeded)) ∧
    Model.CborParser.decode d (Model.CborParser.nestIndef k [n]) =
      (if k ≤ d then .ok (Model.CborParser.nestArrV k (.uint n)) [] else .fail (.err .maxNestingDepthExceeded)) :=
  ⟨Model.CborParser.decode_nestArr d n hn k, Model.CborParser.decode_nestMap d n hn k, Model.CborParser.decode_nestIndef d n hn k⟩

/-- … at any position inside a document, with `depth` containers already open and anything behind -/
theorem cbor_depth_limit_inner (d k n depth fuel : Nat) (tail : Bytes) (hn : n < 24) (hf : 2 * k + 1 ≤ fuel) (hd : depth ≤ d) :
    Model.CborParser.item d fuel depth (Model.CborParser.nestArr k [n] ++ tail) =
      (if depth + k ≤ d then .ok (Model.CborParser.nestArrV k (.uint n)) tail else .fail (.err .maxNestingDepthExceeded)) ∧
    Model.CborParser.item d fuel depth (Model.CborParser.nestMap k [n] ++ tail) =
      (if depth + k ≤ d then .ok (Model.CborParser.nestMapV k (.uint n)) tail else .fail (.err .maxNestingDepthExceeded)) ∧
    Model.CborParser.item d fuel depth (Model.CborParser.nestIndef k [n] ++ tail) =
      (if depth + k ≤ d then .ok (Model.CborParser.nestArrV k (.uint n)) tail else .fail (.err .maxNestingDepthExceeded)) :=
  ⟨Model.CborParser.nestArr_item d n hn tail k fuel depth hf hd, Model.CborParser.nestMap_item d n hn tail k fuel depth hf hd,
   Model.CborParser.nestIndef_item d n hn k fuel depth tail hf hd⟩

/-- the shapes are what they are said to be, and the values they decode to are nested exactly k deep: the bound of
    `cbor_value_depth_le_limit` is attained at k = max_nesting_depth -/
theorem cbor_nest_shapes (k n : Nat) :
    Model.CborParser.nestArr k [n] = List.replicate k 0x81 ++ [n] ∧
    Model.CborParser.nestIndef k [n] = List.replicate k 0x9f ++ [n] ++ List.replicate k 0xff ∧
    (Model.CborParser.nestArrV k (.uint n)).depth = k ∧ (Model.CborParser.nestMapV k (.uint n)).depth = k :=
  ⟨Model.CborParser.nestArr_eq k [n], Model.CborParser.nestIndef_eq k [n],
   by simp [Model.CborParser.nestArrV_depth, Model.CborParser.Item.depth],
   by simp [Model.CborParser.nestMapV_depth, Model.CborParser.Item.depth]⟩

/-- what is delivered is paid for by input: one per node plus every string byte, at most the number of bytes consumed -/
theorem cbor_output_le_input (d : Nat) (bs : Bytes) (v : Model.CborParser.Item) (rest : Bytes)
    (h : Model.CborParser.decode d bs = .ok v rest) : v.weight + rest.length ≤ bs.length :=
  Model.CborParser.decode_weight_le h

/-- a definite byte (major 2) / text (major 3) string header claiming `n` bytes, followed by fewer than `n` bytes: unexpected_eof,
    for every n < 2^64 (the header is the one the encoder writes: shortest form) -/
theorem cbor_claimed_length_needs_data (d major n : Nat) (hm : major = 2 ∨ major = 3) (hn : n < 2 ^ 64) (short : Bytes)
    (h : short.length < n) :
    Model.CborParser.decode d (Model.Cbor.writeHead major n ++ short) = .fail (.err .unexpectedEof) :=
  Model.CborParser.string_claim_eof d major n hm hn short h _ 0

/-- a definite array header claiming `n` elements over fewer than `n` bytes, a definite map header claiming `n` members over
    fewer than `2·n` bytes: never accepted (every element costs at least one byte) -/
theorem cbor_claimed_count_needs_data (d n : Nat) (hn : n < 2 ^ 64) (short : Bytes) (v : Model.CborParser.Item) (rest : Bytes) :
    (short.length < n → Model.CborParser.decode d (Model.Cbor.writeHead 4 n ++ short) ≠ .ok v rest) ∧
    (short.length < 2 * n → Model.CborParser.decode d (Model.Cbor.writeHead 5 n ++ short) ≠ .ok v rest) :=
  ⟨fun h => Model.CborParser.array_claim_refused d n hn short h _ 0 v rest,
   fun h => Model.CborParser.map_claim_refused d n hn short h _ 0 v rest⟩

/-! non-vacuity: at the limit, one above, and a 2^62-byte claim over two bytes -/
example : Model.CborParser.nestIndef 2 [7] = [0x9f, 0x9f, 7, 0xff, 0xff] := by decide
example : Model.CborParser.nestMap 1 [7] = [0xa1, 0x60, 7] := by decide
example : Model.CborParser.decode 2 [0x81, 0x81, 7] = .ok (.arr [.arr [.uint 7]]) [] := by rfl
example : Model.CborParser.decode 1 [0x81, 0x81, 7] = .fail (.err .maxNestingDepthExceeded) := by rfl
example : Model.CborParser.decode 1 [0x9f, 7, 0xff] = .ok (.arr [.uint 7]) [] := by rfl
example : Model.CborParser.decode 0 [0xa1, 0x60, 7] = .fail (.err .maxNestingDepthExceeded) := by rfl
example : Model.CborParser.Err.maxNestingDepthExceeded.code = 10 ∧ Model.CborParser.Err.unexpectedEof.code = 1 := ⟨rfl, rfl⟩
example : Model.Cbor.writeHead 2 (2 ^ 62) ++ [1, 2] = [0x5b, 0x40, 0, 0, 0, 0, 0, 0, 0, 1, 2] := by decide
example : Model.CborParser.decode 8 [0x5b, 0x40, 0, 0, 0, 0, 0, 0, 0, 1, 2] = .fail (.err .unexpectedEof) := by rfl

end JV.Props.C10
