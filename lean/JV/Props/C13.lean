/-
  C13 — JMESPath evaluation follows the JMESPath specification.

  `JV.Spec.JMESPath` is a reference interpreter written from the specification (not from jsoncons). The correspondence
  check evaluates generated (expression, document) pairs with the real library and with this interpreter and judges the
  library's value or error kind against it. What is proved here is about the reference itself: that it has the
  algebraic identities the specification implies, and that its slice rule coincides — for every start, stop, step and
  length — with the start/stop/step arithmetic the implementation executes (`Model.JsonPath.sliceIdx`, the code shared
  by jsoncons' JSONPath and JMESPath slices, itself proved equal to RFC 9535 / Python slicing in C12).
-/
import JV.Proofs.JMESPath
namespace JV
namespace Props
namespace C13
open Spec.JMESPath

/-- the result of a projection is an array without `null` elements, no longer than its input -/
theorem projection_drops_nulls (f : JVal → Except Err JVal) (xs : List JVal) (r : JVal) (h : projectWith f xs = .ok r) :
    ∃ ys, r = .arr ys ∧ (∀ y ∈ ys, y.isNull = false) ∧ ys.length ≤ xs.length := projectWith_shape f xs r h

theorem list_projection_of_non_array_is_null (rest : List Step) (v : JVal) (h : v.isArray = false) :
    evalSteps (.star :: rest) v = .ok .null := star_on_non_array rest v h

theorem filter_of_non_array_is_null (c : Expr) (rest : List Step) (v : JVal) (h : v.isArray = false) :
    evalSteps (.filter c :: rest) v = .ok .null := filter_on_non_array c rest v h

theorem slice_of_non_array_is_null (s : Slice) (rest : List Step) (v : JVal) (h : v.isArray = false) :
    evalSteps (.slice s :: rest) v = .ok .null := slice_on_non_array s rest v h

theorem object_projection_of_non_object_is_null (rest : List Step) (v : JVal) (h : v.isObject = false) :
    evalSteps (.objStar :: rest) v = .ok .null := objStar_on_non_object rest v h

theorem pipe_is_associative (a b c : Expr) (v : JVal) : eval (.pipe (.pipe a b) c) v = eval (.pipe a (.pipe b c)) v :=
  pipe_assoc a b c v

theorem double_negation_is_truthiness (e : Expr) (v : JVal) :
    eval (.not (.not e)) v = (match eval e v with | .error err => .error err | .ok x => .ok (.bool (truthy x))) := not_not e v

theorem or_is_idempotent (e : Expr) (v : JVal) : eval (.or e e) v = eval e v := or_idem e v
theorem and_is_idempotent (e : Expr) (v : JVal) : eval (.and e e) v = eval e v := and_idem e v

theorem or_returns_truthy_left (a b : Expr) (v x : JVal) (h : eval a v = .ok x) (t : truthy x = true) :
    eval (.or a b) v = .ok x := or_short_circuit a b v x h t

theorem and_returns_falsy_left (a b : Expr) (v x : JVal) (h : eval a v = .ok x) (t : truthy x = false) :
    eval (.and a b) v = .ok x := and_short_circuit a b v x h t

theorem reverse_is_an_involution (xs : List JVal) :
    (applyFn .reverse [.arr xs]).bind (fun r => applyFn .reverse [r]) = .ok (.arr xs) := reverse_reverse xs

theorem to_array_is_idempotent (v : JVal) :
    (applyFn .toArray [v]).bind (fun r => applyFn .toArray [r]) = applyFn .toArray [v] := to_array_idem v

theorem sort_returns_a_sorted_permutation (is : List Int) :
    ∃ out : List Int, applyFn .sort [.arr (is.map .int)] = .ok (.arr (out.map .int)) ∧ out.Perm is ∧ out.Pairwise (· ≤ ·) :=
  sort_ints_sorted_perm is

/-- **Slices.** For all integers: the reference's slice indices are those of the implementation's arithmetic, in order. -/
theorem slice_rule_is_implementation_arithmetic (s : Slice) (n : Nat) :
    sliceIndices s n = Model.JsonPath.sliceIdx { start := s.start, stop := s.stop, step := s.step } n :=
  sliceIndices_eq_impl s n

/-! executable sanity (these are tests of the reference, labelled as such) -/
example : sliceIndices { start := none, stop := none, step := -2 } 5 = [4, 2, 0] := by decide
example : (applyFn .join [.str [44], .arr [.str [], .str [97], .str [98]]]) = .ok (.str [44, 97, 44, 98]) := by rfl
example : eval (.chain (.ident [97]) [.star, .field [98]]) (.obj [([97], .arr [.obj [([98], .int 1)], .obj [], .obj [([98], .null)]])])
    = .ok (.arr [.int 1]) := by rfl

end C13
end Props
end JV
