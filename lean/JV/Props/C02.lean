import JV.Spec.Rfc8259
namespace JV.Props.C02
theorem placeholder : True := trivial
end JV.Props.C02
