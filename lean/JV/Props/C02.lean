/-
  C02 — the JSON parser accepts exactly RFC 8259 and yields the specified value.

  The reference against which the real parser is judged on every run is JV.Spec.Rfc8259.parseText, a
  recursive-descent transcription of the RFC grammar (plus one production each for comments and
  trailing commas, and a nesting limit). The real parser (json_parser.hpp, a 2000-line hand-written
  state machine) is NOT modelled; its accept/reject decision and its value are compared with the
  reference on every string of ≤ 3/4 tokens over a 29-token alphabet, on rendered+mutated documents,
  on comment/comma placements in every gap, on nesting depth limit-1/limit/limit+1 and on wide
  objects with duplicate names (see evidence).

  Proved here, about the reference: its string production accepts exactly the UTF-8 encodings of
  sequences of Unicode scalar values (no overlongs, no surrogates, nothing above U+10FFFF), and a
  collection of grammar facts the property names (leading zeros, bare signs, control characters,
  trailing commas, comments, nesting limit), each for all continuations where that makes sense.
-/
import JV.Proofs.Utf8
import JV.Proofs.JsonParserNumber
import JV.Proofs.JsonParserDepth
import JV.Proofs.JsonParserString
import JV.Proofs.JsonParserRefine
import JV.Proofs.JsonParserSoundScalar
import JV.Proofs.JsonParserSound
import JV.Proofs.JsonParserOptsComments
import JV.Proofs.JsonParserOptsSlashFree
import JV.Proofs.JsonParserOptsSound
import JV.Proofs.JsonParserSoundNec
namespace JV.Props.C02
open JV Spec.Rfc8259

/-- the strings of the grammar are exactly the encodings of scalar-value sequences: soundness … -/
theorem utf8_valid_of_scalars (cps : List Nat) (h : ∀ cp ∈ cps, IsScalar cp) : validUtf8 (encodeAll cps) = true :=
  validUtf8_encodeAll cps h

/-- … and completeness: whatever the validator accepts is such an encoding -/
theorem utf8_scalars_of_valid (bs : Bytes) (h : validUtf8 bs = true) :
    ∃ cps, (∀ cp ∈ cps, IsScalar cp) ∧ bs = encodeAll cps :=
  validUtf8_decode bs.length bs (Nat.le_refl _) h

/-- a number may not have a leading zero, whatever follows -/
theorem no_leading_zero (d : Nat) (hd : isDigit d = true) (rest : Bytes) :
    parseNumber (48 :: d :: rest) = some ([48], d :: rest) := by
  have h1 : d ≠ 46 := by simp [isDigit] at hd; omega
  have h2 : ¬ (d = 101 ∨ d = 69) := by simp [isDigit] at hd; omega
  simp [parseNumber, h1, h2]

/-- … so `0d…` is never a complete JSON text -/
theorem leading_zero_rejected (fl : Flags) (d : Nat) (hd : isDigit d = true) : parseText fl [48, d] = none := by
  have h1 : isWs 48 = false := by decide
  have h2 : isWs d = false := by simp [isDigit] at hd; simp [isWs]; omega
  have h3 : ¬ (d = 47) := by simp [isDigit] at hd; omega
  have hnum := no_leading_zero d hd []
  unfold parseText
  simp only [skipWs, h1, Bool.false_eq_true, if_false, show (48:Nat) ≠ 47 by decide, decide_false, Bool.and_false]
  simp only [List.length_cons, List.length_nil, parseValue, show (48:Nat) ≠ 123 by decide, show (48:Nat) ≠ 91 by decide,
    show (48:Nat) ≠ 34 by decide, show (48:Nat) ≠ 116 by decide, show (48:Nat) ≠ 102 by decide, show (48:Nat) ≠ 110 by decide,
    if_false, hnum, Option.map_some]
  simp [skipWs, h2, h3]

/-- a raw control character inside a string is never accepted -/
theorem control_char_rejected (fuel : Nat) (c : Nat) (hc : c < 32) (rest : Bytes) : parseChars (fuel + 1) (c :: rest) = none := by
  have : c ≠ 34 := by omega
  simp [parseChars, this, hc]


/-! ### the parser itself (Model: JV.Model.JsonParser — one arm per cell of json_parser.hpp's state machine, tied to the real parser
    state by state and outcome by outcome by the `parser-model` stream) -/
section ParserModel
open Model.JsonParser

/-- the UTF-8 check every completed string goes through (`unicode_traits::validate` = `trailing_bytes_for_utf8` + `is_legal_utf8`)
    accepts exactly well-formed UTF-8 in the sense of RFC 3629 — for every byte string -/
theorem validator_is_rfc3629 (bs : Bytes) : validate bs = none ↔ Spec.Rfc8259.validUtf8 bs = true := validate_iff bs

/-- the number sub-automaton (`parse_number`: minus / zero / integer / fraction1 / fraction2 / exp1 / exp2 / exp3) accepts exactly
    the byte strings that the RFC 8259 number production derives — for every byte string -/
theorem number_lexer_is_rfc8259 (bs : Bytes) : numAccepts bs = true ↔ ∃ lit, Spec.Rfc8259.parseNumber bs = some (lit, []) :=
  numAccepts_iff bs

/-- whenever the automaton moves, `parse_number` consumes the character, appends it to the buffer and moves the same way -/
theorem number_step_follows_automaton (s : St) (c : Nat) (ns' : NS) (h : numNext s.ns c = some ns') :
    stepNumber s c = ({ s with buf := s.buf ++ [c], ns := ns' }, true) := stepNumber_of_numNext s c ns' h

/-- a text that is one RFC 8259 number is accepted under every configuration and reported as exactly one number event carrying the
    literal unchanged (its classification into int64/uint64/double/bignum text is C04's `classifyInteger`) -/
theorem number_text_is_accepted (cfg : Cfg) (lit : Bytes) (h : ∃ l, Spec.Rfc8259.parseNumber lit = some (l, [])) :
    accepted (run cfg lit) = true ∧ ((run cfg lit).evs = [Ev.int lit] ∨ (run cfg lit).evs = [Ev.frac lit]) :=
  number_text_accepted cfg lit ((numAccepts_iff lit).2 h)

/-- every `\uXXXX` escape that denotes a scalar value is decoded to that scalar's UTF-8 (the code unit is the one the reference's
    `hex4` reads), for every parser state inside a string after a backslash -/
theorem escape_decodes_scalar (cfg : Cfg) (s : St) (a b c d u : Nat) (hst : s.st = .string) (hss : s.ss = .escape) (he : s.err = none)
    (hx : hex4 [a, b, c, d] = some (u, [])) (hu : u < 0xD800 ∨ 0xE000 ≤ u) :
    feed cfg s [117, a, b, c, d] = { s with cp := u, buf := s.buf ++ utf8Encode u, ss := .text } :=
  escape_u_scalar cfg s a b c d u hst hss he hx hu

/-- a surrogate pair `\uD8xx\uDCxx` is decoded to the UTF-8 of the ONE scalar value it denotes, 0x10000 + (hi-0xD800)*0x400 + (lo-0xDC00) -/
theorem surrogate_pair_decodes_scalar (cfg : Cfg) (s : St) (a b c d e f g h hi lo : Nat) (hst : s.st = .string) (hss : s.ss = .escape)
    (he : s.err = none) (hx : hex4 [a, b, c, d] = some (hi, [])) (hy : hex4 [e, f, g, h] = some (lo, []))
    (hhi : 0xD800 ≤ hi ∧ hi ≤ 0xDBFF) (hlo : 0xDC00 ≤ lo ∧ lo ≤ 0xDFFF) :
    feed cfg s [117, a, b, c, d, 92, 117, e, f, g, h] =
      { s with cp := hi, cp2 := lo, buf := s.buf ++ utf8Encode (0x10000 + (hi - 0xD800) * 1024 + (lo - 0xDC00)), ss := .text } :=
  escape_u_pair cfg s a b c d e f g h hi lo hst hss he hx hy hhi hlo

/-- at no point of any input does a parser that has not failed sit deeper than `max_nesting_depth` -/
theorem nesting_never_exceeds_limit (cfg : Cfg) (text : Bytes) (h : (feed cfg init text).err = none) :
    (feed cfg init text).level ≤ cfg.maxDepth :=
  levelOK_feed cfg init text (levelOK_init cfg) h

/-- the limit is exact: a container opened at the limit is refused with max_nesting_depth_exceeded, one opened below it is not -/
theorem nesting_limit_exact (cfg : Cfg) (s : St) :
    (s.level = cfg.maxDepth → (beginArray cfg s).err = some eMaxDepth ∧ (beginObject cfg s).err = some eMaxDepth) ∧
    (s.level < cfg.maxDepth → (beginArray cfg s).err = s.err ∧ (beginObject cfg s).err = s.err) :=
  ⟨fun h => ⟨beginArray_at_limit cfg s h, beginObject_at_limit cfg s h⟩,
   fun h => ⟨(beginArray_below_limit cfg s h).1, (beginObject_below_limit cfg s h).1⟩⟩

-- kernel-evaluated instances of the model (the same definitions the driver runs against the real parser)
example : accepted (run ⟨2, false, false⟩ [91, 91, 93, 93]) = true := by decide                              -- [[]] at limit 2
example : (run ⟨2, false, false⟩ [91, 91, 91, 93, 93, 93]).err = some eMaxDepth := by decide                 -- [[[]]] at limit 2
example : (run ⟨9, true, false⟩ [91, 49, 47, 42, 32, 97, 42, 42, 47, 93]).err = none := by decide            -- [1/* a**/]  (D80)
example : (run ⟨9, false, false⟩ [48, 49]).err = some eLeadingZero := by decide                               -- 01
example : (run ⟨9, false, false⟩ [34, 92, 117, 100, 56, 51, 100, 92, 117, 100, 101, 48, 48, 34]).evs = [Ev.str [240, 159, 152, 128] false] := by decide
end ParserModel

/-! ### refinement, completeness direction: the parser model accepts EVERY text the RFC 8259 reference accepts and reports the
    value the reference assigns (proof: Proofs/JsonParserRefineWs, -Num, -Str, JsonParserRefine — forward simulation by
    induction on the reference parser's recursion, for all inputs) -/
section ParserRefinement
open Model.JsonParser

/-- the visitor calls a value of the reference stands for, in document order: `null` ↦ `[null]`, `bool b` ↦ `[bool b]`,
    `num lit` ↦ `[frac lit]` if the literal contains '.', 'e' or 'E' and `[int lit]` otherwise, `str s` ↦ `[str s true]`,
    `arr xs` ↦ `beginArray`, the events of the elements, `endArray`; `obj ms` ↦ `beginObject`, for each member (duplicates
    kept, document order) `key k` and the events of its value, `endObject` -/
abbrev eventsOf : JT → List Ev := Model.JsonParser.eventsOf

/-- forgets the `noesc` tag of a string event (whether the source text of the string had no backslash): the reference's
    `JT.str` carries the decoded bytes only -/
abbrev eraseNoesc : Ev → Ev := Ev.eraseNoesc

/-- COMPLETENESS for whole documents, all inputs, every option setting of the parser: if the RFC 8259 reference (no comments,
    no trailing commas, the parser's nesting limit) reads `bs` as the value `v`, then the parser model accepts `bs` (ends in
    `done` without an error code) and the events it reported, in order, are exactly the events of `v` — up to the `noesc` tag of
    string events, which `v` does not determine. Every byte string, every nesting, every escape, every `\r` placement. -/
theorem parse_complete_any_options (cfg : Cfg) (bs : Bytes) (v : JT)
    (h : parseText { comments := false, trailingComma := false, maxDepth := cfg.maxDepth } bs = some v) :
    accepted (run cfg bs) = true ∧ (run cfg bs).evs.reverse.map eraseNoesc = eventsOf v :=
  run_complete cfg bs v h

/-- the same for the strict configuration (the reference flags are then exactly the parser's options) -/
theorem parse_complete (cfg : Cfg) (bs : Bytes) (v : JT)
    (h : parseText { comments := false, trailingComma := false, maxDepth := cfg.maxDepth } bs = some v)
    (_hc : cfg.comments = false) (_ht : cfg.trailingComma = false) :
    accepted (run cfg bs) = true ∧ (run cfg bs).evs.reverse.map eraseNoesc = eventsOf v :=
  run_complete cfg bs v h

/-- consequence: an accepted text is never refused, whatever the error code -/
theorem parse_complete_no_error (cfg : Cfg) (bs : Bytes)
    (h : (parseText { comments := false, trailingComma := false, maxDepth := cfg.maxDepth } bs).isSome = true) :
    (run cfg bs).err = none := by
  cases hv : parseText { comments := false, trailingComma := false, maxDepth := cfg.maxDepth } bs with
  | none => simp [hv] at h
  | some v =>
    have := (run_complete cfg bs v hv).1
    simp only [accepted, Bool.and_eq_true, Option.isNone_iff_eq_none] at this
    exact this.1

-- non-vacuity: the hypothesis holds for the nested document {"a":[1,"x\n",null]} (the escape \n is the two bytes 92 110) …
example : (parseText { comments := false, trailingComma := false, maxDepth := 8 }
    [123, 34, 97, 34, 58, 91, 49, 44, 34, 120, 92, 110, 34, 44, 110, 117, 108, 108, 93, 125]).isSome = true := by decide
-- … and the conclusion, evaluated on the model for that document:
example : (run ⟨8, false, false⟩ [123, 34, 97, 34, 58, 91, 49, 44, 34, 120, 92, 110, 34, 44, 110, 117, 108, 108, 93, 125]).evs.reverse =
    [.beginObject, .key [97], .beginArray, .int [49], .str [120, 10] false, .null, .endArray, .endObject] := by decide
-- with white space (including a CR before the closing bracket and at the very end) and a fraction
example : (parseText { comments := false, trailingComma := false, maxDepth := 8 }
    [32, 91, 13, 49, 46, 53, 13, 93, 13]).isSome = true := by decide
example : (run ⟨8, false, false⟩ [32, 91, 13, 49, 46, 53, 13, 93, 13]).evs.reverse = [.beginArray, .frac [49, 46, 53], .endArray] := by decide

/-- SOUNDNESS, for documents whose root is a literal or a number (the first character after the leading white space is none of
    `"`, `[`, `{`), comments off, all inputs: whatever the parser model accepts, the RFC 8259 reference reads as a value, and (by
    completeness) the events reported are the events of that value. So on these documents the model accepts EXACTLY the
    texts of the grammar. (Needs only `comments = false`. For every root — strings, arrays, objects, any nesting — see `parse_sound`
    below, which needs trailing commas off and the text to be free of the two surrogate anomalies: the parser accepts a lone low
    surrogate escape and a high surrogate followed by any `\uXXXX`, the reference gives those texts no value — DESIGN.md, C02
    exclusions.) -/
theorem parse_sound_scalars (cfg : Cfg) (bs : Bytes) (hc : cfg.comments = false)
    (hroot : ∀ c r, bs.dropWhile isWs = c :: r → c ≠ 34 ∧ c ≠ 91 ∧ c ≠ 123)
    (h : accepted (run cfg bs) = true) :
    ∃ v, parseText { comments := false, trailingComma := false, maxDepth := cfg.maxDepth } bs = some v ∧
      (run cfg bs).evs.reverse.map eraseNoesc = eventsOf v := by
  obtain ⟨v, hv⟩ := run_sound_scalar cfg hc bs hroot h
  exact ⟨v, hv, (run_complete cfg bs v hv).2⟩

/-- the two directions together on those documents -/
theorem parse_exact_scalars (cfg : Cfg) (bs : Bytes) (hc : cfg.comments = false)
    (hroot : ∀ c r, bs.dropWhile isWs = c :: r → c ≠ 34 ∧ c ≠ 91 ∧ c ≠ 123) :
    accepted (run cfg bs) = true ↔
      (parseText { comments := false, trailingComma := false, maxDepth := cfg.maxDepth } bs).isSome = true := by
  constructor
  · intro h
    obtain ⟨v, hv⟩ := run_sound_scalar cfg hc bs hroot h
    simp [hv]
  · intro h
    cases hv : parseText { comments := false, trailingComma := false, maxDepth := cfg.maxDepth } bs with
    | none => simp [hv] at h
    | some v => exact (run_complete cfg bs v hv).1

/-- SOUNDNESS also for a root string, provided the text contains no `\u` escape (no backslash followed by `u`; plain characters,
    raw UTF-8 and the eight two-character escapes are all covered): whatever the model accepts (comments off) among the documents
    whose root is a literal, a number or such a string, the reference reads as a value, with the reported events those of the
    value. (Needs only `comments = false`; `parse_sound` below covers `\u` escapes too, under `NoSurrogateAnomaly`, which this
    hypothesis implies — `no_backslash_u_no_anomaly`.) -/
theorem parse_sound_scalars_and_plain_strings (cfg : Cfg) (bs : Bytes) (hc : cfg.comments = false)
    (hroot : ∀ c r, bs.dropWhile isWs = c :: r → c ≠ 91 ∧ c ≠ 123)
    (hnu : ∀ pre post, bs ≠ pre ++ 92 :: 117 :: post)
    (h : accepted (run cfg bs) = true) :
    ∃ v, parseText { comments := false, trailingComma := false, maxDepth := cfg.maxDepth } bs = some v ∧
      (run cfg bs).evs.reverse.map eraseNoesc = eventsOf v := by
  obtain ⟨v, hv⟩ := run_sound_scalar_str cfg hc bs hroot hnu h
  exact ⟨v, hv, (run_complete cfg bs v hv).2⟩

-- the model refuses what the grammar refuses: "01", "1.", "-", "tru", "nul l", "1 2"
example : accepted (run ⟨8, false, false⟩ [48, 49]) = false := by decide
example : accepted (run ⟨8, false, false⟩ [49, 46]) = false := by decide
example : accepted (run ⟨8, false, false⟩ [45]) = false := by decide
example : accepted (run ⟨8, false, false⟩ [116, 114, 117]) = false := by decide
example : accepted (run ⟨8, false, false⟩ [49, 32, 50]) = false := by decide
-- … and the two surrogate texts on which parser and reference differ (accepted / no value): "\\udc00" and "\\ud800\\u0041"
example : accepted (run ⟨8, false, false⟩ [34, 92, 117, 100, 99, 48, 48, 34]) = true ∧
    (parseText { comments := false, trailingComma := false, maxDepth := 8 } [34, 92, 117, 100, 99, 48, 48, 34]).isSome = false := by decide
example : accepted (run ⟨8, false, false⟩ [34, 92, 117, 100, 56, 48, 48, 92, 117, 48, 48, 52, 49, 34]) = true ∧
    (parseText { comments := false, trailingComma := false, maxDepth := 8 } [34, 92, 117, 100, 56, 48, 48, 92, 117, 48, 48, 52, 49, 34]).isSome = false := by decide
/-! SOUNDNESS for whole documents (proof: Proofs/JsonParserSoundCtx, -Str, JsonParserSound — the converse simulation, by induction on
    the length of the remaining input: an accepting run of the model from a state that expects a value / an array body / an object
    body in a nesting context decomposes into the reference's parse of a prefix and an accepting run from the after-value state on
    the rest; every character the grammar does not allow at a point leads the model to an error code). -/

/-- The text has neither of the two surrogate anomalies — the ONLY two places where the parser (comments and trailing commas off)
    accepts a text the RFC 8259 reference gives no value (witnesses below). Decidable, computed by one left-to-right scan of the
    TEXT that reads a backslash together with the character after it (`\u` together with its four hex digits):
    (1) no `\uDC00`–`\uDFFF` escape stands anywhere but directly after a `\uD800`–`\uDBFF` escape (a lone low surrogate: the
        parser's `unicode_traits::convert` appends nothing for it and the string is accepted without it);
    (2) no `\uD800`–`\uDBFF` escape is directly followed by a `\uXXXX` escape whose value is not in DC00–DFFF (the parser combines
        the two code units arithmetically into some scalar value instead of refusing).
    Where the four characters after `\u` are not hex digits, or a high surrogate escape is followed by something that is not a `\u`
    escape, parser and reference both refuse the text and the scan stops with `true`. A text without any `\u` is anomaly-free
    (`no_backslash_u_no_anomaly`); every text of the grammar is anomaly-free (`value_implies_no_anomaly`), so the predicate
    excludes exactly the divergent texts (`disagreement_iff_anomaly`). -/
abbrev NoSurrogateAnomaly (bs : Bytes) : Prop := surrogateOK bs = true

/-- SOUNDNESS for whole documents — every byte string, every nesting of arrays and objects, every escape, every white-space and
    `\r` placement, every nesting limit: if the parser model with comments and trailing commas off accepts `bs` (ends in `done`
    without an error code) and `bs` has neither surrogate anomaly, then the RFC 8259 reference (same nesting limit) reads `bs` as a
    value `v`, and the events the parser reported are, in order, exactly the events of `v` (up to the `noesc` tag). -/
theorem parse_sound (cfg : Cfg) (bs : Bytes) (hc : cfg.comments = false) (ht : cfg.trailingComma = false)
    (hs : NoSurrogateAnomaly bs) (h : accepted (run cfg bs) = true) :
    ∃ v, parseText { comments := false, trailingComma := false, maxDepth := cfg.maxDepth } bs = some v ∧
      (run cfg bs).evs.reverse.map eraseNoesc = eventsOf v := by
  obtain ⟨v, hv⟩ := run_sound cfg hc ht bs hs h
  exact ⟨v, hv, (run_complete cfg bs v hv).2⟩

/-- EXACTNESS: on texts without a surrogate anomaly the strict parser accepts exactly the texts of the RFC 8259 grammar (within
    the nesting limit) — soundness and completeness together, for all inputs -/
theorem parse_exact (cfg : Cfg) (bs : Bytes) (hc : cfg.comments = false) (ht : cfg.trailingComma = false)
    (hs : NoSurrogateAnomaly bs) :
    accepted (run cfg bs) = true ↔
      (parseText { comments := false, trailingComma := false, maxDepth := cfg.maxDepth } bs).isSome = true := by
  constructor
  · intro h
    obtain ⟨v, hv⟩ := run_sound cfg hc ht bs hs h
    simp [hv]
  · intro h
    cases hv : parseText { comments := false, trailingComma := false, maxDepth := cfg.maxDepth } bs with
    | none => simp [hv] at h
    | some v => exact (run_complete cfg bs v hv).1

/-- … in particular every text the strict parser refuses with whatever error code has no value in the grammar, and vice versa -/
theorem parse_exact_reject (cfg : Cfg) (bs : Bytes) (hc : cfg.comments = false) (ht : cfg.trailingComma = false)
    (hs : NoSurrogateAnomaly bs) :
    accepted (run cfg bs) = false ↔
      parseText { comments := false, trailingComma := false, maxDepth := cfg.maxDepth } bs = none := by
  have := parse_exact cfg bs hc ht hs
  cases ha : accepted (run cfg bs) <;> cases hp : parseText { comments := false, trailingComma := false, maxDepth := cfg.maxDepth } bs <;>
    simp_all

/-- the hypothesis `NoSurrogateAnomaly` is NECESSARY, i.e. it excludes nothing the grammar derives: every text the reference gives a
    value is anomaly-free (proof: Proofs/JsonParserSoundNec — the scan commutes with every production of the reference) -/
theorem value_implies_no_anomaly (maxDepth : Nat) (bs : Bytes) (v : JT)
    (h : parseText { comments := false, trailingComma := false, maxDepth := maxDepth } bs = some v) : NoSurrogateAnomaly bs :=
  parseText_sOK ⟨maxDepth, false, false⟩ bs v h

/-- CHARACTERISATION without side condition: the texts of the RFC 8259 grammar (within the nesting limit) are exactly the texts
    the strict parser accepts that have no surrogate anomaly — for every byte string -/
theorem grammar_iff_accepted_and_no_anomaly (cfg : Cfg) (bs : Bytes) (hc : cfg.comments = false) (ht : cfg.trailingComma = false) :
    (parseText { comments := false, trailingComma := false, maxDepth := cfg.maxDepth } bs).isSome = true ↔
      (accepted (run cfg bs) = true ∧ NoSurrogateAnomaly bs) := by
  constructor
  · intro h
    cases hv : parseText { comments := false, trailingComma := false, maxDepth := cfg.maxDepth } bs with
    | none => simp [hv] at h
    | some v => exact ⟨(run_complete cfg bs v hv).1, parseText_sOK cfg bs v hv⟩
  · rintro ⟨h, hs⟩
    exact (parse_exact cfg bs hc ht hs).1 h

/-- … so the strict parser and the reference DISAGREE on a text exactly when the parser accepts it and it has a surrogate anomaly:
    the two anomalies are the only divergence, and every anomalous text the parser accepts is a divergence -/
theorem disagreement_iff_anomaly (cfg : Cfg) (bs : Bytes) (hc : cfg.comments = false) (ht : cfg.trailingComma = false) :
    (accepted (run cfg bs) = true ∧ parseText { comments := false, trailingComma := false, maxDepth := cfg.maxDepth } bs = none) ↔
      (accepted (run cfg bs) = true ∧ ¬ NoSurrogateAnomaly bs) := by
  have hg := grammar_iff_accepted_and_no_anomaly cfg bs hc ht
  constructor
  · rintro ⟨ha, hn⟩
    refine ⟨ha, fun hs => ?_⟩
    have := hg.2 ⟨ha, hs⟩
    rw [hn] at this; cases this
  · rintro ⟨ha, hs⟩
    refine ⟨ha, ?_⟩
    cases hv : parseText { comments := false, trailingComma := false, maxDepth := cfg.maxDepth } bs with
    | none => rfl
    | some v => exact absurd (hg.1 (by simp [hv])).2 hs

/-- a text in which no backslash is followed by `u` has no surrogate anomaly (so `parse_sound` covers every document whose
    strings use only plain characters, raw UTF-8 and the eight two-character escapes) -/
theorem no_backslash_u_no_anomaly (bs : Bytes) (h : ∀ pre post, bs ≠ pre ++ 92 :: 117 :: post) : NoSurrogateAnomaly bs :=
  sOK_of_noU bs.length bs (Nat.le_refl _) h

-- non-vacuity: {"k\n":[1e3,<CR>"\ud83d\ude00",{}]}<LF> — the hypotheses, and both sides of the conclusion, evaluated
example : NoSurrogateAnomaly [123, 34, 107, 92, 110, 34, 58, 91, 49, 101, 51, 44, 13, 34, 92, 117, 100, 56, 51, 100, 92, 117, 100, 101, 48, 48, 34, 44, 123, 125, 93,
    125, 10] := by decide
example : accepted (run ⟨8, false, false⟩ [123, 34, 107, 92, 110, 34, 58, 91, 49, 101, 51, 44, 13, 34, 92, 117, 100, 56, 51, 100, 92, 117, 100, 101, 48, 48, 34, 44, 123, 125, 93,
    125, 10]) = true := by decide
example : (parseText { comments := false, trailingComma := false, maxDepth := 8 } [123, 34, 107, 92, 110, 34, 58, 91, 49, 101, 51, 44, 13, 34, 92, 117, 100, 56, 51, 100, 92, 117, 100, 101, 48, 48, 34, 44, 123, 125, 93,
    125, 10]).isSome = true := by decide
example : (run ⟨8, false, false⟩ [123, 34, 107, 92, 110, 34, 58, 91, 49, 101, 51, 44, 13, 34, 92, 117, 100, 56, 51, 100, 92, 117, 100, 101, 48, 48, 34, 44, 123, 125, 93,
    125, 10]).evs.reverse =
    [.beginObject, .key [107, 10], .beginArray, .frac [49, 101, 51], .str [240, 159, 152, 128] false, .beginObject, .endObject, .endArray,
     .endObject] := by decide
-- the predicate is false on exactly the anomalous texts: "\udc00", "\ud800\u0041", and "\\ud83d\ude00" (an escaped backslash, the
-- letters ud83d, then a lone low surrogate) — and true on the pair "\ud83d\ude00" and on "\\udc00" (escaped backslash + letters)
example : ¬ NoSurrogateAnomaly [34, 92, 117, 100, 99, 48, 48, 34] := by decide
example : ¬ NoSurrogateAnomaly [34, 92, 117, 100, 56, 48, 48, 92, 117, 48, 48, 52, 49, 34] := by decide
example : ¬ NoSurrogateAnomaly [34, 92, 92, 117, 100, 56, 51, 100, 92, 117, 100, 101, 48, 48, 34] := by decide
example : accepted (run ⟨8, false, false⟩ [34, 92, 92, 117, 100, 56, 51, 100, 92, 117, 100, 101, 48, 48, 34]) = true ∧
    (parseText { comments := false, trailingComma := false, maxDepth := 8 } [34, 92, 92, 117, 100, 56, 51, 100, 92, 117, 100, 101, 48, 48, 34]).isSome = false := by
  decide
example : NoSurrogateAnomaly [34, 92, 117, 100, 56, 51, 100, 92, 117, 100, 101, 48, 48, 34] := by decide
example : NoSurrogateAnomaly [34, 92, 92, 117, 100, 99, 48, 48, 34] := by decide
-- both hypotheses on the options are needed: with trailing commas on the parser accepts [1,], with comments on [1/**/]
example : accepted (run ⟨8, false, true⟩ [91, 49, 44, 93]) = true ∧
    (parseText { comments := false, trailingComma := false, maxDepth := 8 } [91, 49, 44, 93]).isSome = false := by decide
example : accepted (run ⟨8, true, false⟩ [91, 49, 47, 42, 42, 47, 93]) = true ∧
    (parseText { comments := false, trailingComma := false, maxDepth := 8 } [91, 49, 47, 42, 42, 47, 93]).isSome = false := by decide
end ParserRefinement

/-! ### the options: `allow_trailing_comma` and `allow_comments` relax exactly those two constructs (proofs: the simulations of
    Proofs/JsonParserRefine and Proofs/JsonParserSound are carried out for the reference WITH the trailing-comma production
    whenever the parser has the option; Proofs/JsonParserOpts* for comments) -/
section ParserOptions
open Model.JsonParser

/-- COMPLETENESS with `allow_trailing_comma`: whatever the reference with the trailing-comma production (`, ws ]` and `, ws }`
    after at least one element / member; no comments; the parser's nesting limit) reads as a value, the parser with the option on
    accepts, reporting the events of that value (a trailing comma reports nothing) -/
theorem parse_complete_trailing_comma (cfg : Cfg) (bs : Bytes) (v : JT) (ht : cfg.trailingComma = true)
    (h : parseText { comments := false, trailingComma := true, maxDepth := cfg.maxDepth } bs = some v) :
    accepted (run cfg bs) = true ∧ (run cfg bs).evs.reverse.map eraseNoesc = eventsOf v :=
  run_complete_tc cfg bs v (by
    rw [show tcFlags cfg = { comments := false, trailingComma := true, maxDepth := cfg.maxDepth } from (by simp [ht])]
    exact h)

/-- SOUNDNESS with `allow_trailing_comma` (comments off): whatever the parser accepts on a text without a surrogate anomaly, the
    reference with the trailing-comma production reads as a value, and the events are those of the value. So the option allows
    NOTHING but a comma before the closing bracket of a non-empty container (`[,]`, `[1,,]`, `{,}` stay errors). -/
theorem parse_sound_trailing_comma (cfg : Cfg) (bs : Bytes) (hc : cfg.comments = false) (ht : cfg.trailingComma = true)
    (hs : NoSurrogateAnomaly bs) (h : accepted (run cfg bs) = true) :
    ∃ v, parseText { comments := false, trailingComma := true, maxDepth := cfg.maxDepth } bs = some v ∧
      (run cfg bs).evs.reverse.map eraseNoesc = eventsOf v := by
  obtain ⟨v, hv⟩ := run_sound_tc cfg hc bs hs h
  refine ⟨v, ?_, (run_complete_tc cfg bs v hv).2⟩
  rwa [show tcFlags cfg = { comments := false, trailingComma := true, maxDepth := cfg.maxDepth } from (by simp [ht])] at hv

/-- EXACTNESS with `allow_trailing_comma`: on texts without a surrogate anomaly the parser with trailing commas on (comments off)
    accepts exactly the texts of the grammar extended by the one trailing-comma production -/
theorem parse_exact_trailing_comma (cfg : Cfg) (bs : Bytes) (hc : cfg.comments = false) (ht : cfg.trailingComma = true)
    (hs : NoSurrogateAnomaly bs) :
    accepted (run cfg bs) = true ↔
      (parseText { comments := false, trailingComma := true, maxDepth := cfg.maxDepth } bs).isSome = true := by
  constructor
  · intro h
    obtain ⟨v, hv, _⟩ := parse_sound_trailing_comma cfg bs hc ht hs h
    simp [hv]
  · intro h
    cases hv : parseText { comments := false, trailingComma := true, maxDepth := cfg.maxDepth } bs with
    | none => simp [hv] at h
    | some v => exact (parse_complete_trailing_comma cfg bs v ht hv).1

/-- both settings of the option at once: with comments off, the parser accepts exactly what the reference with THE SAME
    trailing-comma flag derives (on anomaly-free texts), with the same events -/
theorem parse_exact_any_trailing_comma (cfg : Cfg) (bs : Bytes) (hc : cfg.comments = false) (hs : NoSurrogateAnomaly bs) :
    accepted (run cfg bs) = true ↔
      (parseText { comments := false, trailingComma := cfg.trailingComma, maxDepth := cfg.maxDepth } bs).isSome = true := by
  constructor
  · intro h
    obtain ⟨v, hv⟩ := run_sound_tc cfg hc bs hs h
    simp [hv]
  · intro h
    cases hv : parseText { comments := false, trailingComma := cfg.trailingComma, maxDepth := cfg.maxDepth } bs with
    | none => simp [hv] at h
    | some v => exact (run_complete_tc cfg bs v hv).1

-- non-vacuity: [1,] and {"a":1,} and [[1 , ] ,\r] — accepted by both with the option on, by neither with it off; the events
example : accepted (run ⟨8, false, true⟩ [91, 49, 44, 93]) = true ∧
    (parseText { comments := false, trailingComma := true, maxDepth := 8 } [91, 49, 44, 93]).isSome = true := by decide
example : (run ⟨8, false, true⟩ [91, 49, 44, 93]).evs.reverse = [.beginArray, .int [49], .endArray] := by decide
example : accepted (run ⟨8, false, true⟩ [123, 34, 97, 34, 58, 49, 44, 125]) = true ∧
    (parseText { comments := false, trailingComma := true, maxDepth := 8 } [123, 34, 97, 34, 58, 49, 44, 125]).isSome = true := by decide
example : (run ⟨8, false, true⟩ [123, 34, 97, 34, 58, 49, 44, 125]).evs.reverse =
    [.beginObject, .key [97], .int [49], .endObject] := by decide
example : accepted (run ⟨8, false, true⟩ [91, 91, 49, 32, 44, 32, 93, 32, 44, 13, 93]) = true ∧
    (parseText { comments := false, trailingComma := true, maxDepth := 8 } [91, 91, 49, 32, 44, 32, 93, 32, 44, 13, 93]).isSome = true := by
  decide
example : NoSurrogateAnomaly [123, 34, 97, 34, 58, 49, 44, 125] := by decide
example : accepted (run ⟨8, false, false⟩ [123, 34, 97, 34, 58, 49, 44, 125]) = false ∧
    (parseText { comments := false, trailingComma := false, maxDepth := 8 } [123, 34, 97, 34, 58, 49, 44, 125]).isSome = false := by decide
-- the option relaxes nothing else: [,] [1,,] {,} {"a":1,,} stay refused by both
example : accepted (run ⟨8, false, true⟩ [91, 44, 93]) = false ∧
    (parseText { comments := false, trailingComma := true, maxDepth := 8 } [91, 44, 93]).isSome = false := by decide
example : accepted (run ⟨8, false, true⟩ [91, 49, 44, 44, 93]) = false ∧
    (parseText { comments := false, trailingComma := true, maxDepth := 8 } [91, 49, 44, 44, 93]).isSome = false := by decide
example : accepted (run ⟨8, false, true⟩ [123, 44, 125]) = false ∧
    (parseText { comments := false, trailingComma := true, maxDepth := 8 } [123, 44, 125]).isSome = false := by decide
example : accepted (run ⟨8, false, true⟩ [123, 34, 97, 34, 58, 49, 44, 44, 125]) = false ∧
    (parseText { comments := false, trailingComma := true, maxDepth := 8 } [123, 34, 97, 34, 58, 49, 44, 44, 125]).isSome = false := by decide

/-! #### `allow_comments` -/

/-- the reference's `JSON-text` with PLAIN white space only after the value, `ws value *( SP / HT / LF / CR )`, where the leading
    `ws` and every `ws` inside the value may contain comments when `fl.comments`. This is what the parser implements: after the
    root value its `check_done` knows no comments (finding D22 — witnesses below), so a comment after the root value is an error
    even with `allow_comments`. -/
abbrev parseTextPlainTail (fl : Flags) (bs : Bytes) : Option JT := Model.JsonParser.parseTextPlainTail fl bs

/-- decidable: the reference's final `ws` consumed plain white space only (vacuously true when the reference reads no value) -/
abbrev NoCommentAfterValue (fl : Flags) (bs : Bytes) : Prop := plainTail fl bs = true

/-- `parseTextPlainTail` is exactly `parseText` on the texts without a comment after the value … -/
theorem plain_tail_iff (fl : Flags) (bs : Bytes) (v : JT) :
    parseTextPlainTail fl bs = some v ↔ (parseText fl bs = some v ∧ NoCommentAfterValue fl bs) :=
  parseTextPlainTail_some fl bs v

/-- … and is `parseText` itself when comments are off -/
theorem plain_tail_without_comments (fl : Flags) (hc : fl.comments = false) (bs : Bytes) :
    parseTextPlainTail fl bs = parseText fl bs :=
  parseTextPlainTail_nc fl hc bs

/-- COMPLETENESS for EVERY option setting, against the reference with exactly the parser's options (comments, trailing commas,
    nesting limit): if the reference reads `bs` as the value `v` and no comment follows the value, the parser accepts `bs` and
    reports exactly the events of `v` — block comments (with `*`, `**`, CR, CR LF inside), line comments (ended by CR or LF, which is
    then read as white space), in front of the value and wherever the grammar has `ws` inside it; comments report nothing.
    (Proof: Proofs/JsonParserOptsComments — `/* … */` and `// …` are skipped by the `slash`, `slash_star`, `slash_star_star`,
    `slash_slash` and `cr` states exactly as by the reference's `skipWs`.) -/
theorem parse_complete_options (cfg : Cfg) (bs : Bytes) (v : JT)
    (h : parseText { comments := cfg.comments, trailingComma := cfg.trailingComma, maxDepth := cfg.maxDepth } bs = some v)
    (hp : NoCommentAfterValue { comments := cfg.comments, trailingComma := cfg.trailingComma, maxDepth := cfg.maxDepth } bs) :
    accepted (run cfg bs) = true ∧ (run cfg bs).evs.reverse.map eraseNoesc = eventsOf v :=
  run_complete_opt cfg bs v ((parseTextPlainTail_some _ bs v).2 ⟨h, hp⟩)

/-- the comment-enabled configurations in particular -/
theorem parse_complete_comments (cfg : Cfg) (bs : Bytes) (v : JT) (hc : cfg.comments = true)
    (h : parseTextPlainTail { comments := true, trailingComma := cfg.trailingComma, maxDepth := cfg.maxDepth } bs = some v) :
    accepted (run cfg bs) = true ∧ (run cfg bs).evs.reverse.map eraseNoesc = eventsOf v :=
  run_complete_opt cfg bs v (by
    rw [show optFlags cfg = { comments := true, trailingComma := cfg.trailingComma, maxDepth := cfg.maxDepth } from (by simp [hc])]
    exact h)

/-- the options only RELAX: a text without surrogate anomaly that the strict parser accepts is accepted under every other option
    setting (same nesting limit), with the same events -/
theorem options_only_relax (cfg cfg' : Cfg) (bs : Bytes) (hc : cfg.comments = false) (ht : cfg.trailingComma = false)
    (hd : cfg'.maxDepth = cfg.maxDepth) (hs : NoSurrogateAnomaly bs) (h : accepted (run cfg bs) = true) :
    accepted (run cfg' bs) = true ∧
      (run cfg' bs).evs.reverse.map eraseNoesc = (run cfg bs).evs.reverse.map eraseNoesc := by
  obtain ⟨v, hv, hev⟩ := parse_sound cfg bs hc ht hs h
  have := run_complete cfg' bs v (by rw [show strictFlags cfg' = strictFlags cfg from (by simp [hd])]; exact hv)
  exact ⟨this.1, this.2.trans hev.symm⟩

-- non-vacuity: [1/*c*/,2] and [1,//x<LF>2] and [/*<CR>**/1<CR>] and, with both options, {"a"/**/:/**/1,/**/} <LF>
example : (parseTextPlainTail { comments := true, trailingComma := false, maxDepth := 8 } [91, 49, 47, 42, 99, 42, 47, 44, 50, 93]).isSome = true := by
  decide
example : accepted (run ⟨8, true, false⟩ [91, 49, 47, 42, 99, 42, 47, 44, 50, 93]) = true ∧
    (run ⟨8, true, false⟩ [91, 49, 47, 42, 99, 42, 47, 44, 50, 93]).evs.reverse = [.beginArray, .int [49], .int [50], .endArray] := by decide
example : (parseTextPlainTail { comments := true, trailingComma := false, maxDepth := 8 } [91, 49, 44, 47, 47, 120, 10, 50, 93]).isSome = true ∧
    accepted (run ⟨8, true, false⟩ [91, 49, 44, 47, 47, 120, 10, 50, 93]) = true := by decide
example : (parseTextPlainTail { comments := true, trailingComma := false, maxDepth := 8 } [91, 47, 42, 13, 42, 42, 47, 49, 13, 93]).isSome = true ∧
    accepted (run ⟨8, true, false⟩ [91, 47, 42, 13, 42, 42, 47, 49, 13, 93]) = true := by decide
example : (parseTextPlainTail { comments := true, trailingComma := true, maxDepth := 8 }
      [123, 34, 97, 34, 47, 42, 42, 47, 58, 47, 42, 42, 47, 49, 44, 47, 42, 42, 47, 125, 32, 10]).isSome = true ∧
    accepted (run ⟨8, true, true⟩ [123, 34, 97, 34, 47, 42, 42, 47, 58, 47, 42, 42, 47, 49, 44, 47, 42, 42, 47, 125, 32, 10]) = true := by decide
-- D22 (recorded divergence): a comment AFTER the root value — [1/*c*/,2]//x and 1/**/ — the reference's final `ws` takes it, the
-- parser's `check_done` refuses it with extra_character; `NoCommentAfterValue` is false on exactly these
example : (parseText { comments := true, trailingComma := false, maxDepth := 8 } [91, 49, 47, 42, 99, 42, 47, 44, 50, 93, 47, 47, 120]).isSome = true ∧
    (run ⟨8, true, false⟩ [91, 49, 47, 42, 99, 42, 47, 44, 50, 93, 47, 47, 120]).err = some eExtraCharacter ∧
    ¬ NoCommentAfterValue { comments := true, trailingComma := false, maxDepth := 8 } [91, 49, 47, 42, 99, 42, 47, 44, 50, 93, 47, 47, 120] := by
  decide
example : (parseText { comments := true, trailingComma := false, maxDepth := 8 } [49, 47, 42, 42, 47]).isSome = true ∧
    (run ⟨8, true, false⟩ [49, 47, 42, 42, 47]).err = some eExtraCharacter := by decide
-- both refuse: an unterminated block comment [1/* (unexpected_eof), a lone slash [1/ ] (syntax_error), a line comment that runs to
-- the end of the input [1//x (unexpected_eof), /*/ (the `*` cannot serve twice); with comments off a comment is illegal_comment
example : (run ⟨8, true, false⟩ [91, 49, 47, 42]).err = some eUnexpectedEof ∧
    parseText { comments := true, trailingComma := false, maxDepth := 8 } [91, 49, 47, 42] = none := by decide
example : (run ⟨8, true, false⟩ [91, 49, 47, 32, 93]).err = some eSyntax ∧
    parseText { comments := true, trailingComma := false, maxDepth := 8 } [91, 49, 47, 32, 93] = none := by decide
example : (run ⟨8, true, false⟩ [91, 49, 47, 47, 120]).err = some eUnexpectedEof ∧
    parseText { comments := true, trailingComma := false, maxDepth := 8 } [91, 49, 47, 47, 120] = none := by decide
example : (run ⟨8, true, false⟩ [47, 42, 47, 49]).err = some eUnexpectedEof ∧
    parseText { comments := true, trailingComma := false, maxDepth := 8 } [47, 42, 47, 49] = none := by decide
example : (run ⟨8, false, false⟩ [91, 49, 47, 42, 42, 47, 93]).err = some eIllegalComment ∧
    parseText { comments := false, trailingComma := false, maxDepth := 8 } [91, 49, 47, 42, 42, 47, 93] = none := by decide

/-- `allow_comments` relaxes NOTHING on a text without the byte `/`: the whole outcome of the parser (final state, events, error
    code) is the same with the option on and off (the `slash` state, the only cell that consults the option, is entered by a `/`
    only — Proofs/JsonParserOptsSlashFree) -/
theorem comments_option_irrelevant_without_slash (cfg : Cfg) (b : Bool) (bs : Bytes) (h : ∀ x ∈ bs, x ≠ 47) :
    run { cfg with comments := b } bs = run cfg bs :=
  run_comments_slash_free cfg b bs h

/-- EXACTNESS for EVERY option setting on `/`-free texts without surrogate anomaly: whatever `allow_comments` is, the parser
    accepts exactly what the reference without comments and with the parser's trailing-comma flag derives -/
theorem options_relax_exactly_slash_free (cfg : Cfg) (bs : Bytes) (h47 : ∀ x ∈ bs, x ≠ 47) (hs : NoSurrogateAnomaly bs) :
    accepted (run cfg bs) = true ↔
      (parseText { comments := false, trailingComma := cfg.trailingComma, maxDepth := cfg.maxDepth } bs).isSome = true := by
  rw [← run_comments_slash_free cfg false bs h47]
  exact parse_exact_any_trailing_comma { cfg with comments := false } bs rfl hs

example : (run ⟨8, true, true⟩ [91, 49, 44, 93]).evs = (run ⟨8, false, true⟩ [91, 49, 44, 93]).evs := by decide

/-! #### soundness with `allow_comments` ON (partial: the space-skipping states in general, whole documents with a scalar root) -/

/-- the leading `ws` WITH COMMENTS of an accepted text (comments on): the reference's `skipWs` is defined on it (no unterminated
    block comment) and what it leaves begins with a character that is neither white space nor `/`. Instance at the root of the general
    lemma `acc_skip` (Proofs/JsonParserOptsSound), which holds in all seven space-skipping states in any nesting context: an accepting
    run skips exactly what the reference's `ws`-with-comments skips — an unterminated `/* …`, a `// …` that runs to the end of the
    input and a `/` followed by neither `/` nor `*` all end in an error code. -/
theorem accepted_leading_ws_comments (cfg : Cfg) (bs : Bytes) (hc : cfg.comments = true) (h : accepted (run cfg bs) = true) :
    ∃ c r, skipWs true (bs.length + 1) bs = some (c :: r) ∧ isWs c = false ∧ c ≠ 47 ∧
      accepted (finish (feed cfg init (c :: r))) = true := by
  obtain ⟨w, hw, hA, _, hhd⟩ := acc_skip cfg hc init rfl (bs.length + 1) bs (Nat.lt_succ_self _) h
  cases w with
  | nil => exact absurd hA (value_not_eof cfg init rfl)
  | cons c r => exact ⟨c, r, hw, (hhd c r rfl).1, (hhd c r rfl).2, hA⟩

/-- decidable: after the leading `ws` with comments the text does not begin a string, an array or an object -/
def scalarRoot (bs : Bytes) : Bool :=
  match skipWs true (bs.length + 1) bs with
  | some (c :: _) => c != 34 && c != 91 && c != 123
  | _ => true

/-- SOUNDNESS with `allow_comments` ON for the documents whose root is a literal or a number (whatever `allow_trailing_comma`):
    if the parser accepts, the reference WITH the comment production reads the text as a value `v`, no comment follows the value,
    and the events reported are exactly those of `v`. (No hypothesis on surrogates: these roots contain no string.) -/
theorem parse_sound_comments_scalars (cfg : Cfg) (bs : Bytes) (hc : cfg.comments = true) (hroot : scalarRoot bs = true)
    (h : accepted (run cfg bs) = true) :
    ∃ v, parseText { comments := true, trailingComma := cfg.trailingComma, maxDepth := cfg.maxDepth } bs = some v ∧
      NoCommentAfterValue { comments := true, trailingComma := cfg.trailingComma, maxDepth := cfg.maxDepth } bs ∧
      (run cfg bs).evs.reverse.map eraseNoesc = eventsOf v := by
  have hroot' : ∀ w c r, skipWs true (bs.length + 1) bs = some w → w = c :: r → c ≠ 34 ∧ c ≠ 91 ∧ c ≠ 123 := by
    intro w c r hw e
    subst e
    simp [scalarRoot, hw] at hroot
    exact ⟨hroot.1.1, hroot.1.2, hroot.2⟩
  obtain ⟨v, hv⟩ := run_sound_scalar_comments cfg hc bs hroot' h
  have hev := (run_complete_opt cfg bs v hv).2
  rw [show optFlags cfg = { comments := true, trailingComma := cfg.trailingComma, maxDepth := cfg.maxDepth } from (by simp [hc])] at hv
  obtain ⟨h1, h2⟩ := (parseTextPlainTail_some _ bs v).1 hv
  exact ⟨v, h1, h2, hev⟩

/-- EXACTNESS with `allow_comments` ON on those documents: the parser accepts exactly the texts the grammar with the comment
    production derives with no comment after the value (D22) -/
theorem parse_exact_comments_scalars (cfg : Cfg) (bs : Bytes) (hc : cfg.comments = true) (hroot : scalarRoot bs = true) :
    accepted (run cfg bs) = true ↔
      (parseTextPlainTail { comments := true, trailingComma := cfg.trailingComma, maxDepth := cfg.maxDepth } bs).isSome = true := by
  constructor
  · intro h
    obtain ⟨v, h1, h2, _⟩ := parse_sound_comments_scalars cfg bs hc hroot h
    have e := (parseTextPlainTail_some _ bs v).2 ⟨h1, h2⟩
    show (Model.JsonParser.parseTextPlainTail _ bs).isSome = true
    rw [e]; rfl
  · intro h
    cases hv : parseTextPlainTail { comments := true, trailingComma := cfg.trailingComma, maxDepth := cfg.maxDepth } bs with
    | none => rw [hv] at h; cases h
    | some v => exact (parse_complete_comments cfg bs v hc hv).1

-- /*x*/ //y<LF> -1.5e3 <CR>  and  /**/tru  and  1/2  and  /*1
example : scalarRoot [47, 42, 120, 42, 47, 32, 47, 47, 121, 10, 45, 49, 46, 53, 101, 51, 32, 13] = true ∧
    accepted (run ⟨8, true, false⟩ [47, 42, 120, 42, 47, 32, 47, 47, 121, 10, 45, 49, 46, 53, 101, 51, 32, 13]) = true ∧
    (parseText { comments := true, trailingComma := false, maxDepth := 8 }
      [47, 42, 120, 42, 47, 32, 47, 47, 121, 10, 45, 49, 46, 53, 101, 51, 32, 13]).isSome = true := by decide
example : scalarRoot [47, 42, 42, 47, 116, 114, 117] = true ∧ accepted (run ⟨8, true, false⟩ [47, 42, 42, 47, 116, 114, 117]) = false ∧
    (parseText { comments := true, trailingComma := false, maxDepth := 8 } [47, 42, 42, 47, 116, 114, 117]).isSome = false := by decide
example : scalarRoot [47, 42, 49] = true ∧ accepted (run ⟨8, true, false⟩ [47, 42, 49]) = false ∧
    (parseText { comments := true, trailingComma := false, maxDepth := 8 } [47, 42, 49]).isSome = false := by decide

end ParserOptions

/-! ### the option flags relax exactly one construct each (kernel-evaluated instances, all four flag pairs) -/
def fl (c t : Bool) : Flags := { comments := c, trailingComma := t, maxDepth := 1024 }
def txt (s : String) : Bytes := s.toUTF8.toList.map (·.toNat)

example : (parseText (fl false false) [91, 49, 44, 93]).isSome = false := by decide             -- [1,]
example : (parseText (fl true false) [91, 49, 44, 93]).isSome = false := by decide
example : (parseText (fl false true) [91, 49, 44, 93]).isSome = true := by decide
example : (parseText (fl false true) [91, 44, 93]).isSome = false := by decide                  -- [,]
example : (parseText (fl true false) [91, 49, 47, 42, 42, 47, 93]).isSome = true := by decide    -- [1/**/]
example : (parseText (fl false false) [91, 49, 47, 42, 42, 47, 93]).isSome = false := by decide
example : (parseText (fl true false) [123, 34, 97, 34, 58, 49, 44, 47, 42, 99, 42, 47, 125]).isSome = false := by decide  -- {"a":1,/*c*/}
example : (parseText (fl true true) [123, 34, 97, 34, 58, 49, 44, 47, 42, 99, 42, 47, 125]).isSome = true := by decide
-- nesting limit: depth 2 accepted at limit 2, depth 3 rejected
example : (parseText { comments := false, trailingComma := false, maxDepth := 2 } [91, 91, 93, 93]).isSome = true := by decide
example : (parseText { comments := false, trailingComma := false, maxDepth := 2 } [91, 91, 91, 93, 93, 93]).isSome = false := by decide
-- escapes: a surrogate pair denotes one scalar, a lone surrogate none
example : parseString [34, 92, 117, 100, 56, 51, 100, 92, 117, 100, 101, 48, 48, 34] = some ([240, 159, 152, 128], []) := by decide
example : parseString [34, 92, 117, 100, 56, 51, 100, 34] = none := by decide

end JV.Props.C02
