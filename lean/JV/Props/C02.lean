/-
  C02 — the JSON parser accepts exactly RFC 8259 and yields the specified value.

  The reference against which the real parser is judged on every run is JV.Spec.Rfc8259.parseText, a
  recursive-descent transcription of the RFC grammar (plus one production each for comments and
  trailing commas, and a nesting limit). The real parser (json_parser.hpp, a 2000-line hand-written
  state machine) is NOT modelled; its accept/reject decision and its value are compared with the
  reference on every string of ≤ 3/4 tokens over a 29-token alphabet, on rendered+mutated documents,
  on comment/comma placements in every gap, on nesting depth limit-1/limit/limit+1 and on wide
  objects with duplicate names (see evidence).

  Proved here, about the reference: its string production accepts exactly the UTF-8 encodings of
  sequences of Unicode scalar values (no overlongs, no surrogates, nothing above U+10FFFF), and a
  collection of grammar facts the property names (leading zeros, bare signs, control characters,
  trailing commas, comments, nesting limit), each for all continuations where that makes sense.
-/
import JV.Proofs.Utf8
namespace JV.Props.C02
open JV Spec.Rfc8259

/-- the strings of the grammar are exactly the encodings of scalar-value sequences: soundness … -/
theorem utf8_valid_of_scalars (cps : List Nat) (h : ∀ cp ∈ cps, IsScalar cp) : validUtf8 (encodeAll cps) = true :=
  validUtf8_encodeAll cps h

/-- … and completeness: whatever the validator accepts is such an encoding -/
theorem utf8_scalars_of_valid (bs : Bytes) (h : validUtf8 bs = true) :
    ∃ cps, (∀ cp ∈ cps, IsScalar cp) ∧ bs = encodeAll cps :=
  validUtf8_decode bs.length bs (Nat.le_refl _) h

/-- a number may not have a leading zero, whatever follows -/
theorem no_leading_zero (d : Nat) (hd : isDigit d = true) (rest : Bytes) :
    parseNumber (48 :: d :: rest) = some ([48], d :: rest) := by
  have h1 : d ≠ 46 := by simp [isDigit] at hd; omega
  have h2 : ¬ (d = 101 ∨ d = 69) := by simp [isDigit] at hd; omega
  simp [parseNumber, h1, h2]

/-- … so `0d…` is never a complete JSON text -/
theorem leading_zero_rejected (fl : Flags) (d : Nat) (hd : isDigit d = true) : parseText fl [48, d] = none := by
  have h1 : isWs 48 = false := by decide
  have h2 : isWs d = false := by simp [isDigit] at hd; simp [isWs]; omega
  have h3 : ¬ (d = 47) := by simp [isDigit] at hd; omega
  have hnum := no_leading_zero d hd []
  unfold parseText
  simp only [skipWs, h1, Bool.false_eq_true, if_false, show (48:Nat) ≠ 47 by decide, decide_false, Bool.and_false]
  simp only [List.length_cons, List.length_nil, parseValue, show (48:Nat) ≠ 123 by decide, show (48:Nat) ≠ 91 by decide,
    show (48:Nat) ≠ 34 by decide, show (48:Nat) ≠ 116 by decide, show (48:Nat) ≠ 102 by decide, show (48:Nat) ≠ 110 by decide,
    if_false, hnum, Option.map_some]
  simp [skipWs, h2, h3]

/-- a raw control character inside a string is never accepted -/
theorem control_char_rejected (fuel : Nat) (c : Nat) (hc : c < 32) (rest : Bytes) : parseChars (fuel + 1) (c :: rest) = none := by
  have : c ≠ 34 := by omega
  simp [parseChars, this, hc]

/-! ### the option flags relax exactly one construct each (kernel-evaluated instances, all four flag pairs) -/
def fl (c t : Bool) : Flags := { comments := c, trailingComma := t, maxDepth := 1024 }
def txt (s : String) : Bytes := s.toUTF8.toList.map (·.toNat)

example : (parseText (fl false false) [91, 49, 44, 93]).isSome = false := by decide             -- [1,]
example : (parseText (fl true false) [91, 49, 44, 93]).isSome = false := by decide
example : (parseText (fl false true) [91, 49, 44, 93]).isSome = true := by decide
example : (parseText (fl false true) [91, 44, 93]).isSome = false := by decide                  -- [,]
example : (parseText (fl true false) [91, 49, 47, 42, 42, 47, 93]).isSome = true := by decide    -- [1/**/]
example : (parseText (fl false false) [91, 49, 47, 42, 42, 47, 93]).isSome = false := by decide
example : (parseText (fl true false) [123, 34, 97, 34, 58, 49, 44, 47, 42, 99, 42, 47, 125]).isSome = false := by decide  -- {"a":1,/*c*/}
example : (parseText (fl true true) [123, 34, 97, 34, 58, 49, 44, 47, 42, 99, 42, 47, 125]).isSome = true := by decide
-- nesting limit: depth 2 accepted at limit 2, depth 3 rejected
example : (parseText { comments := false, trailingComma := false, maxDepth := 2 } [91, 91, 93, 93]).isSome = true := by decide
example : (parseText { comments := false, trailingComma := false, maxDepth := 2 } [91, 91, 91, 93, 93, 93]).isSome = false := by decide
-- escapes: a surrogate pair denotes one scalar, a lone surrogate none
example : parseString [34, 92, 117, 100, 56, 51, 100, 92, 117, 100, 101, 48, 48, 34] = some ([240, 159, 152, 128], []) := by decide
example : parseString [34, 92, 117, 100, 56, 51, 100, 34] = none := by decide

end JV.Props.C02
