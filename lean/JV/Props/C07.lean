/-
  C07 — binary decoders implement their specifications.

  PROVED (this file; helper lemmas in JV/Proofs/CborParser.lean):
    * the real CBOR decoder's logic — JV.Model.CborParser, a functional transcription of cbor_parser.hpp (read_item, read_uint64,
      read_int64, read_size, read_text_string_view / read_byte_string_view, iterate_string_chunks, read_double, begin/end_array/object
      with the nesting-depth check, the parse_mode state stack flattened into structural recursion) for the item grammar without tags,
      stringrefs and typed arrays — REFINES the RFC 8949 reference decoder JV.Spec.Cbor on every byte string, every fuel and every
      max_nesting_depth (`cbor_parser_model_refines_spec`, relation `Agrees`, value mapping `toBV textKey`):
        - it accepts only well-formed input, and the value it yields is the value the RFC assigns (`model_value_is_spec_value`,
          `model_accepts_only_wellformed`, `model_accepts_text_keyed`);
        - it rejects every ill-formed input (`model_rejects_illformed`) and accepts every well-formed input the reference judges,
          except for three documented outcomes that carry no claim about well-formedness: `max_nesting_depth_exceeded` (an implementation
          limit), `number_too_large` (-1-n below INT64_MIN) and `skip` (a tag: outside the modelled fragment) (`wellformed_is_accepted`);
      fragments stated separately for all inputs: `model_head_is_spec_head`, `model_int_is_spec_int`, `model_definite_string_is_spec`,
      `model_rejects_reserved`, `model_truncated_head_is_eof`, `model_break_outside_indefinite_is_error`, `model_error_codes`.
    * the real MessagePack decoder's logic — JV.Model.MsgpackParser, a functional transcription of msgpack_parser.hpp (the read_item
      type-byte dispatch over all 256 type bytes, get_size, fixstr/str/bin with UTF-8 validation, ext and fixext with the three timestamp
      layouts, begin/end_array/object with the nesting-depth check, the parse_mode state stack flattened into structural recursion) —
      REFINES the MessagePack reference decoder JV.Spec.Msgpack on every byte string, every fuel and every max_nesting_depth
      (`msgpack_parser_model_refines_spec`, `msgpack_parser_item_refines_spec`, relation `Model.MsgpackParser.Agrees`, value mapping
      `toBV textKey false`; helper lemmas in JV/Proofs/MsgpackParser.lean):
        - it accepts only well-formed input, and the value it yields is the value the specification assigns (`mp_model_value_is_spec_value`,
          `mp_model_accepts_only_wellformed`, `mp_model_accepts_judged`);
        - it rejects every ill-formed input (`mp_model_rejects_illformed`) and accepts every well-formed input the reference judges, except
          for `max_nesting_depth_exceeded` (an implementation limit) and `skip` (a list element that is not a byte) (`mp_wellformed_is_accepted`);
        - ext items and timestamps are accepted exactly when their type byte and whole payload are present; their VALUE (bytes tagged ext,
          epoch_second integer, epoch_nano decimal text) is jsoncons' rendering, which the reference leaves unjudged;
      fragments stated separately for all inputs: `mp_model_fixint_is_spec`, `mp_model_int_is_spec_int` (uint8..64, int8..64),
      `mp_model_float_is_spec`, `mp_model_str_is_spec` (fixstr, str8/16/32), `mp_model_truncated_is_eof`, `mp_model_rejects_c1`,
      `mp_model_timestamps`, `mp_model_error_codes`.
    * the real UBJSON decoder's logic — JV.Model.UbjsonParser, a functional transcription of ubjson_parser.hpp (read_value over every
      marker incl. no-op and high-precision numbers, get_length, read_key, begin_array / begin_object with `$type` / `#count`, the nine
      container parse modes, max_items, max_nesting_depth) — stated per fragment for ALL inputs, every fuel, depth and option setting
      (helper lemmas in JV/Proofs/UbjsonParser.lean; the whole-grammar refinement is NOT proved for UBJSON): `ubj_model_int_is_spec_int`
      (i U I l L), `ubj_model_float_is_spec`, `ubj_model_str_is_spec` (with `getLength_of_spec`: every length item the reference reads is
      read identically), `ubj_model_truncated_is_eof`, `ubj_model_limits`, `ubj_model_error_codes`.
    * facts about the reference itself that the property names: `head_roundtrip`, `int_roundtrip`, `reserved_rejected`,
      `reserved_simple_rejected`, `truncated_head_rejected`, `half_sign_symmetric`, `half_normal`.

  OBSERVED on every run (checks/c07.py):
    * model = real code: stream `cbor-decoder-model` feeds the same bytes to the real decoder (`bin dec cbor`) and to the model
      (`bin mdec cbor`): identical error code, or identical value after the json_decoder's member-list normalisation; inputs with tags
      answer `skip`. Non-text map keys (rendered to text by basic_generic_to_json_visitor) are modelled for integers, booleans, null,
      undefined and byte strings and tied; the reference leaves them unjudged.
    * model = real code (MessagePack): stream `msgpack-decoder-model` feeds the same bytes to the real decoder (`bin dec msgpack`) and to
      the model (`bin mdec msgpack`): identical error code, or identical value (ext → bytes@ext, timestamps → i…@epoch_second /
      s…@epoch_nano, non-string keys rendered by basic_generic_to_json_visitor) after the json_decoder's member-list normalisation, on the
      MessagePack inputs judged against the reference plus ext items of every form and type, the three timestamp layouts (nanoseconds
      beyond 999999999, negative seconds), non-string keys, nesting at the depth limit and under small limits, every width at its boundary
      values, every strict prefix of those; `skip` only for float / container keys.
    * model = real code (UBJSON): stream `ubjson-decoder-model` feeds the same bytes and options (max_items, max_nesting_depth) to the real
      decoder (`bin dec ubjson`) and to the model (`bin mdec ubjson`): identical error code or identical value (H → s…@bigint / s…@bigdec,
      no-op elements absent) on the UBJSON inputs judged against the reference plus typed / counted / open containers of every element
      type, no-ops in every position, counts around max_items, nesting around the limit, bad keys and lengths, every strict prefix of a
      fixed list; `skip` only for a no-op marker as a member value or as the root.
    * real code = reference: the real CBOR / MessagePack / UBJSON / BSON decoders against the reference decoders written in Lean from the
      specifications (JV.Spec.Cbor, JV.Spec.BinFormats) on reference encodings in every legal width and form, mutations, every strict
      prefix, every 1–2 (thorough: sampled 3) byte string. The BSON decoder itself is not modelled.
  Fuel adequacy IS proved for the CBOR model (JV.Proofs.CborParserFuel, stated in Props.C05.cbor_fuel_suffices): with `decode`'s fuel
  2·|input|+2 the model never answers `Fail.fuel`, because every item read consumes at least one byte. For the MessagePack model it is
  observed only (`Fail.fuel` would print `fuel`, which never equals a real outcome).
  NOT proved: the float32→double widening is taken as the IEEE function f32ToF64.
  NOTED: the MessagePack decoder does not range-check the nanoseconds of timestamp 64 / 96 (the specification: "nanoseconds must not be
  larger than 999999999"; msgpack_errc::invalid_timestamp is never raised): d7 ff ff ff ff fc 00 00 00 00 decodes to "1073741823"@epoch_nano.
  The reference leaves timestamps unjudged, so this is recorded here and in the model, not judged by the check.
-/
import JV.Spec.Cbor
import JV.Spec.BinFormats
import JV.Model.Cbor
import JV.Model.CborParser
import JV.Proofs.CborParser
import JV.Model.MsgpackParser
import JV.Proofs.MsgpackParser
import JV.Model.UbjsonParser
import JV.Proofs.UbjsonParser
import JV.Extracted.ErrorCodes
namespace JV.Props.C07
open JV Spec.Cbor Model.Cbor

/-- the argument of a head written by the encoder is read back exactly, for every width the ladder picks -/
theorem head_roundtrip (major n : Nat) (hm : major < 8) (hn : n < 2 ^ 64) (rest : Bytes) :
    ∃ ib tail, writeHead major n ++ rest = ib :: tail ∧ ib / 32 = major ∧ ib % 32 < 28 ∧ readArg (ib % 32) tail = some (n, rest) := by
  unfold writeHead
  by_cases h1 : n ≤ 0x17
  · refine ⟨major * 32 + n, rest, by simp [h1], by omega, by omega, ?_⟩
    have : (major * 32 + n) % 32 = n := by omega
    simp [readArg, this]; omega
  · by_cases h2 : n ≤ 0xff
    · refine ⟨major * 32 + 0x18, n :: rest, by simp [h1, h2], by omega, by omega, ?_⟩
      have : (major * 32 + 0x18) % 32 = 24 := by omega
      simp [readArg, this, beVal]
    · by_cases h3 : n ≤ 0xffff
      · refine ⟨major * 32 + 0x19, beBytes 2 n ++ rest, by simp [h1, h2, h3], by omega, by omega, ?_⟩
        have : (major * 32 + 0x19) % 32 = 25 := by omega
        simp only [readArg, this, beBytes]
        simp [beVal]
        omega
      · by_cases h4 : n ≤ 0xffffffff
        · refine ⟨major * 32 + 0x1a, beBytes 4 n ++ rest, by simp [h1, h2, h3, h4], by omega, by omega, ?_⟩
          have : (major * 32 + 0x1a) % 32 = 26 := by omega
          simp only [readArg, this, beBytes]
          simp [beVal]
          omega
        · refine ⟨major * 32 + 0x1b, beBytes 8 n ++ rest, by simp [h1, h2, h3, h4], by omega, by omega, ?_⟩
          have : (major * 32 + 0x1b) % 32 = 27 := by omega
          simp only [readArg, this, beBytes]
          simp [beVal]
          omega

/-- every int64 written by the encoder model decodes to exactly that integer (both majors, all widths) -/
theorem int_roundtrip (v : Int) (hlo : -(2 ^ 63 : Int) ≤ v) (hhi : v < 2 ^ 63) :
    decode (writeInt v) = .ok (.int v "") [] := by
  unfold writeInt
  by_cases hv : v ≥ 0
  · simp only [hv, if_true]
    obtain ⟨ib, tail, he, hmaj, hai, hr⟩ := head_roundtrip 0 v.toNat (by omega) (by omega) []
    simp only [List.append_nil] at he
    rw [he]
    have h7 : ¬ ib / 32 = 7 := by omega
    have h28 : ¬ (ib % 32 ≥ 28 ∧ ib % 32 ≤ 30) := by omega
    have h31 : ¬ ib % 32 = 31 := by omega
    have e : ((v.toNat : Nat) : Int) = v := Int.toNat_of_nonneg hv
    simp [decode, item, h7, h28, h31, hr, hmaj, e]
  · simp only [hv, if_false]
    obtain ⟨ib, tail, he, hmaj, hai, hr⟩ := head_roundtrip 1 (-1 - v).toNat (by omega) (by omega) []
    simp only [List.append_nil] at he
    rw [he]
    have h7 : ¬ ib / 32 = 7 := by omega
    have h0 : ¬ ib / 32 = 0 := by omega
    have h28 : ¬ (ib % 32 ≥ 28 ∧ ib % 32 ≤ 30) := by omega
    have h31 : ¬ ib % 32 = 31 := by omega
    have hsmall : ¬ ((-1 - v).toNat ≥ 2 ^ 63) := by omega
    have e : (((-1 - v).toNat : Nat) : Int) = -1 - v := Int.toNat_of_nonneg (by omega)
    have e2 : -1 - (-1 - v) = v := by omega
    simp [decode, item, h7, h28, h31, h0, hr, hmaj, hsmall, e, e2]

/-- reserved additional information 28–30 is ill-formed on every major type 0–6, whatever follows -/
theorem reserved_rejected (ib : Nat) (hmaj : ib / 32 ≠ 7) (hai : 28 ≤ ib % 32 ∧ ib % 32 ≤ 30) (rest : Bytes) (fuel : Nat) (tag : Option Nat) :
    item (fuel + 1) tag (ib :: rest) = .illformed := by
  simp [item, hmaj, hai]

/-- … and on major type 7 (28–30 and the stray break 31) -/
theorem reserved_simple_rejected (ai : Nat) (h : 28 ≤ ai ∧ ai ≤ 31) (rest : Bytes) (fuel : Nat) (tag : Option Nat) :
    item (fuel + 1) tag ((224 + ai) :: rest) = .illformed := by
  have h1 : (224 + ai) / 32 = 7 := by omega
  have h2 : (224 + ai) % 32 = ai := by omega
  have : ai ≠ 20 ∧ ai ≠ 21 ∧ ai ≠ 22 ∧ ai ≠ 23 ∧ ai ≠ 25 ∧ ai ≠ 26 ∧ ai ≠ 27 := by omega
  by_cases h31 : ai = 31
  · simp [item, h1, h2, h31]
  · have h28 : ai ≥ 28 := h.1
    simp [item, h1, h2, this, h31, h28]

/-- an empty input, or a head whose argument bytes are missing, is ill-formed (truncation is never a value) -/
theorem truncated_head_rejected (major ai : Nat) (hm : major < 7) (hai : 24 ≤ ai ∧ ai ≤ 27) (fuel : Nat) (tag : Option Nat) :
    item (fuel + 1) tag [major * 32 + ai] = .illformed := by
  have h1 : (major * 32 + ai) / 32 = major := by omega
  have h2 : (major * 32 + ai) % 32 = ai := by omega
  have h7 : major ≠ 7 := by omega
  have h28 : ¬ (ai ≥ 28 ∧ ai ≤ 30) := by omega
  have h31 : ai ≠ 31 := by omega
  have hr : readArg ai [] = none := by
    unfold readArg
    have : ¬ ai < 24 := by omega
    rcases (by omega : ai = 24 ∨ ai = 25 ∨ ai = 26 ∨ ai = 27) with e | e | e | e <;> simp [e]
  simp [item, h1, h2, h7, h28, h31, hr]

/-- binary16 → binary64 keeps the sign for every pattern, zeros and subnormals included (the reference the `cbor-float16` stream compares
    `decode_half`, `as<double>()` and `decode_cbor<double>` with) -/
theorem half_sign_symmetric (h : Nat) (hh : h < 32768) : f16ToF64 (h + 32768) = f16ToF64 h + 2 ^ 63 := by
  have h1 : (h + 32768) / 32768 = 1 := by omega
  have h2 : h / 32768 = 0 := by omega
  have h3 : (h + 32768) / 1024 % 32 = h / 1024 % 32 := by omega
  have h4 : (h + 32768) % 1024 = h % 1024 := by omega
  unfold f16ToF64
  simp only [h1, h2, h3, h4]
  split
  · omega
  · split
    · split <;> omega
    · omega

/-- normal halves: the exponent is re-biased by 1008 and the ten fraction bits move to the top of the 52 -/
theorem half_normal (s e m : Nat) (hs : s < 2) (he : 0 < e ∧ e < 31) (hm : m < 1024) :
    f16ToF64 (s * 32768 + e * 1024 + m) = s * 2 ^ 63 + (e + 1008) * 2 ^ 52 + m * 2 ^ 42 := by
  have h1 : (s * 32768 + e * 1024 + m) / 32768 = s := by omega
  have h2 : (s * 32768 + e * 1024 + m) / 1024 % 32 = e := by omega
  have h3 : (s * 32768 + e * 1024 + m) % 1024 = m := by omega
  unfold f16ToF64
  simp only [h1, h2, h3]
  have : e ≠ 31 := by omega
  have : e ≠ 0 := by omega
  simp [*]

example : f16ToF64 0x8001 = 0xbe70000000000000 := by decide
example : f16ToF64 0x8000 = 0x8000000000000000 := by decide
example : f16ToF64 0x03ff = 0x3f0ff80000000000 := by decide

/-! ### kernel-evaluated instances (non-vacuity; formats other than CBOR) -/
example : decode [0x83, 0x01, 0x20, 0xf6] = .ok (.arr [.int 1 "", .int (-1) "", .null]) [] := by rfl
example : decode [0x9f, 0x01, 0xff] = .ok (.arr [.int 1 ""]) [] := by rfl
example : decode [0xff] = .illformed := by rfl
example : decode [0x5f, 0x61, 0x61, 0xff] = .illformed := by rfl                    -- text chunk inside a byte string
example : decode [0x61, 0xff] = .illformed := by rfl                                -- invalid UTF-8
example : Spec.Msgpack.decode [0x92, 0xcc, 0xff, 0xd0, 0x80] = .ok (.arr [.int 255 "", .int (-128) ""]) [] := by rfl
example : Spec.Msgpack.decode [0xc1] = .illformed := by rfl
example : Spec.Bson.decode [0x0c, 0, 0, 0, 0x10, 0x61, 0, 1, 0, 0, 0, 0] = .ok (.map [([0x61], .int 1 "")]) [] := by rfl
example : Spec.Bson.decode [0x0d, 0, 0, 0, 0x10, 0x61, 0, 1, 0, 0, 0, 0] = .illformed := by rfl   -- size mismatch

/-! ### the real decoder's logic (JV.Model.CborParser) refines the RFC 8949 reference -/
section parser_model
open Model.CborParser

/-- THE REFINEMENT. For every byte string and every `max_nesting_depth`, the outcome of the cbor_parser model and the outcome of the RFC 8949
    reference decoder are related by `Agrees (toBV textKey)`:
      model value v, rest  /  reference value w, rest2   ⇒  toBV textKey v = some w ∧ rest = rest2   (same value, same bytes consumed)
      model value v        /  reference unjudged          ⇒  toBV textKey v = none                    (v has a map key that is not a text string)
      model value          /  reference ill-formed        ⇒  impossible
      model failure f      /  reference value             ⇒  f is max_nesting_depth_exceeded, number_too_large or skip (tag)
    where `toBV textKey` is the documented value mapping: uint n ↦ int n, nint i ↦ int i, half / double / text / bytes unchanged with the
    empty tag, undefined ↦ undef, arrays and maps member-wise with text keys. -/
theorem cbor_parser_model_refines_spec (maxDepth : Nat) (bs : Bytes) :
    Agrees (toBV textKey) (Model.CborParser.decode maxDepth bs) (Spec.Cbor.decode bs) :=
  decode_agrees maxDepth bs

/-- the same at every fuel and nesting depth, for items in any position -/
theorem cbor_parser_item_refines_spec (maxDepth fuel depth : Nat) (s : Bytes) :
    Agrees (toBV textKey) (Model.CborParser.item maxDepth fuel depth s) (Spec.Cbor.item fuel none s) :=
  (agree_all maxDepth fuel).1 depth s

/-- whenever both decoders produce a value it is the same value and the same number of bytes was consumed -/
theorem model_value_is_spec_value (maxDepth : Nat) (bs : Bytes) (v : Item) (rest : Bytes) (w : BV) (rest2 : Bytes)
    (hm : Model.CborParser.decode maxDepth bs = .ok v rest) (hs : Spec.Cbor.decode bs = .ok w rest2) :
    toBV textKey v = some w ∧ rest = rest2 := by
  have h := decode_agrees maxDepth bs
  simpa [hm, hs, Agrees] using h

/-- the model never accepts an ill-formed input -/
theorem model_accepts_only_wellformed (maxDepth : Nat) (bs : Bytes) (v : Item) (rest : Bytes)
    (hm : Model.CborParser.decode maxDepth bs = .ok v rest) : Spec.Cbor.decode bs ≠ .illformed := by
  intro hs
  have h := decode_agrees maxDepth bs
  simp [hm, hs, Agrees] at h

/-- an accepted input whose map keys are all text strings is well-formed and decodes to exactly the value the RFC assigns -/
theorem model_accepts_text_keyed (maxDepth : Nat) (bs : Bytes) (v : Item) (rest : Bytes) (w : BV)
    (hm : Model.CborParser.decode maxDepth bs = .ok v rest) (hv : toBV textKey v = some w) : Spec.Cbor.decode bs = .ok w rest := by
  have h := decode_agrees maxDepth bs
  cases hs : Spec.Cbor.decode bs <;> simp_all [Agrees]

/-- every ill-formed input is rejected (or, if it starts with a tag, outside the fragment) -/
theorem model_rejects_illformed (maxDepth : Nat) (bs : Bytes) (hs : Spec.Cbor.decode bs = .illformed) :
    ∃ f, Model.CborParser.decode maxDepth bs = .fail f := by
  have h := decode_agrees maxDepth bs
  cases hm : Model.CborParser.decode maxDepth bs with
  | ok v rest => simp [hm, hs, Agrees] at h
  | fail f => exact ⟨f, rfl⟩

/-- every input the reference accepts is accepted with the same value, unless the nesting limit, the int64 range or a tag intervenes -/
theorem wellformed_is_accepted (maxDepth : Nat) (bs : Bytes) (w : BV) (rest : Bytes) (hs : Spec.Cbor.decode bs = .ok w rest) :
    (∃ v, Model.CborParser.decode maxDepth bs = .ok v rest ∧ toBV textKey v = some w) ∨
    Model.CborParser.decode maxDepth bs = .fail (.err .maxNestingDepthExceeded) ∨
    Model.CborParser.decode maxDepth bs = .fail (.err .numberTooLarge) ∨
    Model.CborParser.decode maxDepth bs = .fail .skip := by
  have h := decode_agrees maxDepth bs
  cases hm : Model.CborParser.decode maxDepth bs with
  | ok v r =>
    simp only [hm, hs, Agrees] at h
    exact Or.inl ⟨v, by rw [h.2], h.1⟩
  | fail f =>
    simp only [hm, hs, Agrees] at h
    cases f with
    | skip => simp
    | fuel => simp [Fail.lenient] at h
    | err e => cases e <;> simp_all [Fail.lenient]

/-- `read_uint64` is the RFC's argument reader for every initial byte and every tail: additional information 0..23 direct, 24..27 the
    following 1/2/4/8 bytes big-endian (missing bytes → unexpected_eof), 28..31 → unknown_type -/
theorem model_head_is_spec_head (ib : Nat) (s : Bytes) :
    readUint64 (ib :: s) =
      if 28 ≤ ib % 32 then .fail (.err .unknownType)
      else match readArg (ib % 32) s with | some (n, r) => .ok n r | none => .fail (.err .unexpectedEof) :=
  readUint64_eq ib s

/-- majors 0 and 1, every width: n and -1-n exactly as the RFC says, over the full 64-bit argument; the only deviation is
    `number_too_large` for -1-n below -2^63 (which needs the 8-byte form) -/
theorem model_int_is_spec_int (maxDepth fuel depth ib : Nat) (s : Bytes) (n : Nat) (r : Bytes) (hai : ib % 32 < 28)
    (hr : readArg (ib % 32) s = some (n, r)) :
    (ib / 32 = 0 → Model.CborParser.item maxDepth (fuel + 1) depth (ib :: s) = .ok (.uint n) r ∧
                   Spec.Cbor.item (fuel + 1) none (ib :: s) = .ok (.int n "") r) ∧
    (ib / 32 = 1 → Spec.Cbor.item (fuel + 1) none (ib :: s) = .ok (.int (-1 - (n : Int)) "") r ∧
                   Model.CborParser.item maxDepth (fuel + 1) depth (ib :: s) =
                     if ib % 32 = 27 ∧ n > 2 ^ 63 - 1 then .fail (.err .numberTooLarge) else .ok (.nint (-1 - (n : Int))) r) := by
  have h28 : ¬ 28 ≤ ib % 32 := by omega
  have h1 : ¬ (ib % 32 ≥ 28 ∧ ib % 32 ≤ 30) := by omega
  have h2 : ¬ ib % 32 = 31 := by omega
  constructor
  · intro hm
    have e7 : ¬ ib / 32 = 7 := by omega
    simp [Model.CborParser.item, Spec.Cbor.item, hm, e7, readUint64_eq, h28, h1, h2, hr]
  · intro hm
    have e7 : ¬ ib / 32 = 7 := by omega
    constructor
    · by_cases hn : n ≥ 2 ^ 63 <;> simp [Spec.Cbor.item, hm, e7, h1, h2, hr, hn]
    · simp only [Model.CborParser.item, hm, readInt64_eq, h28, hr]
      by_cases hbig : ib % 32 = 27 ∧ n > 2 ^ 63 - 1 <;> simp [hbig]

/-- definite text and byte strings: exactly the RFC's outcome — the `n` bytes that follow the head (unexpected_eof / ill-formed if fewer
    remain), text additionally checked by `unicode_traits::validate`, which accepts exactly well-formed UTF-8 (C02 `validator_is_rfc3629`) -/
theorem model_definite_string_is_spec (maxDepth fuel depth ib : Nat) (s : Bytes) (n : Nat) (s1 : Bytes) (hai : ib % 32 < 28)
    (hr : readArg (ib % 32) s = some (n, s1)) :
    (ib / 32 = 2 → Model.CborParser.item maxDepth (fuel + 1) depth (ib :: s) =
        (if s1.length < n then .fail (.err .unexpectedEof) else .ok (.bytes (s1.take n)) (s1.drop n)) ∧
      Spec.Cbor.item (fuel + 1) none (ib :: s) = (if s1.length < n then .illformed else .ok (.bytes (s1.take n) "") (s1.drop n))) ∧
    (ib / 32 = 3 → Model.CborParser.item maxDepth (fuel + 1) depth (ib :: s) =
        (if s1.length < n then .fail (.err .unexpectedEof)
         else if Spec.Rfc8259.validUtf8 (s1.take n) then .ok (.str (s1.take n)) (s1.drop n) else .fail (.err .invalidUtf8TextString)) ∧
      Spec.Cbor.item (fuel + 1) none (ib :: s) =
        (if s1.length < n then .illformed
         else if Spec.Rfc8259.validUtf8 (s1.take n) then .ok (.str (s1.take n) "") (s1.drop n) else .illformed)) := by
  have h28 : ¬ 28 ≤ ib % 32 := by omega
  have h1 : ¬ (ib % 32 ≥ 28 ∧ ib % 32 ≤ 30) := by omega
  have h2 : ¬ ib % 32 = 31 := by omega
  constructor
  · intro hm
    have e7 : ¬ ib / 32 = 7 := by omega
    by_cases hl : s1.length < n <;>
      simp [Model.CborParser.item, Spec.Cbor.item, hm, e7, readString, readSize, readUint64_eq, h28, h1, h2, hr, hl]
  · intro hm
    have e7 : ¬ ib / 32 = 7 := by omega
    by_cases hl : s1.length < n
    · simp [Model.CborParser.item, Spec.Cbor.item, hm, e7, readString, readSize, readUint64_eq, h28, h1, h2, hr, hl]
    · cases hu : Spec.Rfc8259.validUtf8 (s1.take n) <;>
        simp [Model.CborParser.item, Spec.Cbor.item, hm, e7, readString, readSize, readUint64_eq, badUtf8_eq, h28, h1, h2, hr, hl, hu]

/-- reserved additional information 28..30 (and 31 where no indefinite form exists) is `unknown_type`: in every argument read, and for
    items of majors 0–3 and 7 wherever they stand (majors 4/5 first count the nesting level) -/
theorem model_rejects_reserved (ib : Nat) (s : Bytes) (h : 28 ≤ ib % 32) :
    readUint64 (ib :: s) = .fail (.err .unknownType) ∧ readInt64 (ib :: s) = .fail (.err .unknownType) ∧
    (∀ maxDepth fuel depth, (ib / 32 = 0 ∨ ib / 32 = 1 ∨ ((ib / 32 = 2 ∨ ib / 32 = 3) ∧ ib % 32 ≠ 31) ∨ ib / 32 = 7) →
      Model.CborParser.item maxDepth (fuel + 1) depth (ib :: s) = .fail (.err .unknownType)) := by
  refine ⟨by simp [readUint64_eq, h], by simp [readInt64_eq, h], ?_⟩
  intro maxDepth fuel depth hm
  rcases hm with hm | hm | ⟨hm | hm, h31⟩ | hm
  · simp [Model.CborParser.item, hm, readUint64_eq, h]
  · simp [Model.CborParser.item, hm, readInt64_eq, h]
  · simp [Model.CborParser.item, hm, readString, readSize, readUint64_eq, h, h31]
  · simp [Model.CborParser.item, hm, readString, readSize, readUint64_eq, h, h31]
  · have : ib % 32 ≠ 20 ∧ ib % 32 ≠ 21 ∧ ib % 32 ≠ 22 ∧ ib % 32 ≠ 23 ∧ ib % 32 ≠ 25 ∧ ib % 32 ≠ 26 ∧ ib % 32 ≠ 27 := by omega
    simp [Model.CborParser.item, hm, this]

/-- truncation is never a value: the empty input, and a head of majors 0–5 whose argument bytes are missing, are `unexpected_eof`
    (for majors 4/5 provided the nesting limit is not hit first) -/
theorem model_truncated_head_is_eof (maxDepth fuel depth major ai : Nat) (hm : major < 6) (hai : 24 ≤ ai ∧ ai ≤ 27) (hd : depth + 1 ≤ maxDepth) :
    Model.CborParser.item maxDepth (fuel + 1) depth [] = .fail (.err .unexpectedEof) ∧
    Model.CborParser.item maxDepth (fuel + 1) depth [major * 32 + ai] = .fail (.err .unexpectedEof) := by
  refine ⟨by simp [Model.CborParser.item], ?_⟩
  have h1 : (major * 32 + ai) / 32 = major := by omega
  have h2 : (major * 32 + ai) % 32 = ai := by omega
  have hr : readArg ai [] = none := by
    unfold readArg
    rcases (by omega : ai = 24 ∨ ai = 25 ∨ ai = 26 ∨ ai = 27) with e | e | e | e <;> simp [e]
  have h28 : ¬ 28 ≤ ai := by omega
  have h31 : ¬ ai = 31 := by omega
  have hdd : ¬ depth + 1 > maxDepth := by omega
  generalize major * 32 + ai = ib at h1 h2
  rcases (by omega : major = 0 ∨ major = 1 ∨ major = 2 ∨ major = 3 ∨ major = 4 ∨ major = 5) with e | e | e | e | e | e <;> rw [e] at h1 <;>
    simp [Model.CborParser.item, h1, h2, readString, readSize, readUint64_eq, readInt64_eq, hr, h28, h31, hdd]

/-- a break (0xff) where an item is expected — at the root, as a definite array element, as a map value — is `unknown_type`; it ends an
    indefinite array or map only at an element / key position -/
theorem model_break_outside_indefinite_is_error (maxDepth fuel depth : Nat) (s : Bytes) :
    Model.CborParser.item maxDepth (fuel + 1) depth (0xff :: s) = .fail (.err .unknownType) ∧
    Model.CborParser.itemsIndef maxDepth (fuel + 1) depth (0xff :: s) = .ok [] s ∧
    Model.CborParser.membersIndef maxDepth (fuel + 1) depth (0xff :: s) = .ok [] s := by
  simp [Model.CborParser.item, Model.CborParser.itemsIndef, Model.CborParser.membersIndef]

/-- the model's error classes carry the numbers of `enum class cbor_errc` as extracted from cbor_error.hpp -/
theorem model_error_codes (e : Err) : (e.name, e.code) ∈ JV.Extracted.cborErrc := by
  cases e <;> decide

/-! non-vacuity: kernel-evaluated runs of the model next to the reference -/
example : Model.CborParser.decode 1024 [0x83, 0x01, 0x20, 0xf6] = .ok (.arr [.uint 1, .nint (-1), .null]) [] := by rfl
example : toBV textKey (.arr [.uint 1, .nint (-1), .null]) = some (.arr [.int 1 "", .int (-1) "", .null]) := by rfl
example : Model.CborParser.decode 1024 [0x9f, 0x01, 0xff] = .ok (.arr [.uint 1]) [] := by rfl
example : Model.CborParser.decode 1024 [0xbf, 0x61, 0x61, 0x5f, 0x41, 0x01, 0xff, 0xff] = .ok (.map [(.str [0x61], .bytes [1])]) [] := by rfl
example : Model.CborParser.decode 1024 [0xff] = .fail (.err .unknownType) := by rfl
example : Model.CborParser.decode 1024 [0x5f, 0x61, 0x61, 0xff] = .fail (.err .illegalChunkedString) := by rfl
example : Model.CborParser.decode 1024 [0x61, 0xff] = .fail (.err .invalidUtf8TextString) := by rfl
example : Model.CborParser.decode 1024 [0x7f, 0x61, 0xc3, 0x61, 0xa9, 0xff] = .fail (.err .invalidUtf8TextString) := by rfl   -- é cut across chunks
example : Spec.Cbor.decode [0x7f, 0x61, 0xc3, 0x61, 0xa9, 0xff] = .illformed := by rfl
example : Model.CborParser.decode 1024 [0x3b, 0x80, 0, 0, 0, 0, 0, 0, 0] = .fail (.err .numberTooLarge) := by rfl
example : Model.CborParser.decode 1024 [0x3b, 0x7f, 0xff, 0xff, 0xff, 0xff, 0xff, 0xff, 0xff] = .ok (.nint (-9223372036854775808)) [] := by rfl
example : Model.CborParser.decode 1024 [0x1c] = .fail (.err .unknownType) := by rfl
example : Model.CborParser.decode 1024 [0x19, 0x01] = .fail (.err .unexpectedEof) := by rfl
example : Model.CborParser.decode 2 [0x81, 0x81, 0x81, 0x00] = .fail (.err .maxNestingDepthExceeded) := by rfl
example : Model.CborParser.decode 1024 [0xc1, 0x00] = .fail .skip := by rfl
example : Model.CborParser.decode 1024 [0xa1, 0x01, 0x02] = .ok (.map [(.uint 1, .uint 2)]) [] := by rfl
example : toBV textKey (.map [(.uint 1, .uint 2)]) = none ∧ Spec.Cbor.decode [0xa1, 0x01, 0x02] = .unjudged := by constructor <;> rfl
example : toBV renderKey (.map [(.bool true, .uint 2)]) = some (.map [([116, 114, 117, 101], .int 2 "")]) := by rfl   -- the adaptor renders the key `true`

end parser_model

/-! ### the real MessagePack decoder's logic (JV.Model.MsgpackParser) refines the MessagePack reference -/
section msgpack_parser_model
open Model.MsgpackParser Spec

/-- THE REFINEMENT. For every byte string and every `max_nesting_depth`, the outcome of the msgpack_parser model and the outcome of the
    MessagePack reference decoder are related by `Agrees (toBV textKey false)`:
      model value v, rest  /  reference value w, rest2   ⇒  toBV textKey false v = some w ∧ rest = rest2   (same value, same bytes consumed)
      model value v        /  reference unjudged          ⇒  toBV textKey false v = none    (v contains an ext item / timestamp, or a map key
                                                                                              that is not a string)
      model value          /  reference ill-formed        ⇒  impossible
      model failure f      /  reference value             ⇒  f is max_nesting_depth_exceeded (an implementation limit) or skip (a list element
                                                             that is not a byte)
    where `toBV textKey false` is the documented value mapping: uint n ↦ int n, nint i ↦ int i, double / str / bin unchanged with the empty
    tag, arrays and maps member-wise with string keys. -/
theorem msgpack_parser_model_refines_spec (maxDepth : Nat) (bs : Bytes) :
    Model.MsgpackParser.Agrees (toBV textKey false) (Model.MsgpackParser.decode maxDepth bs) (Spec.Msgpack.decode bs) :=
  Model.MsgpackParser.decode_agrees maxDepth bs

/-- the same at every fuel and nesting depth, for items in any position -/
theorem msgpack_parser_item_refines_spec (maxDepth fuel depth : Nat) (s : Bytes) :
    Model.MsgpackParser.Agrees (toBV textKey false) (Model.MsgpackParser.item maxDepth fuel depth s) (Spec.Msgpack.item fuel s) :=
  (Model.MsgpackParser.agree_all maxDepth fuel).1 depth s

/-- whenever both decoders produce a value it is the same value and the same number of bytes was consumed -/
theorem mp_model_value_is_spec_value (maxDepth : Nat) (bs : Bytes) (v : Model.MsgpackParser.Item) (rest : Bytes) (w : Spec.Cbor.BV) (rest2 : Bytes)
    (hm : Model.MsgpackParser.decode maxDepth bs = .ok v rest) (hs : Spec.Msgpack.decode bs = .ok w rest2) :
    toBV textKey false v = some w ∧ rest = rest2 := by
  have h := Model.MsgpackParser.decode_agrees maxDepth bs
  simpa [hm, hs, Model.MsgpackParser.Agrees] using h

/-- the model never accepts an ill-formed input -/
theorem mp_model_accepts_only_wellformed (maxDepth : Nat) (bs : Bytes) (v : Model.MsgpackParser.Item) (rest : Bytes)
    (hm : Model.MsgpackParser.decode maxDepth bs = .ok v rest) : Spec.Msgpack.decode bs ≠ .illformed := by
  intro hs
  have h := Model.MsgpackParser.decode_agrees maxDepth bs
  simp [hm, hs, Model.MsgpackParser.Agrees] at h

/-- an accepted input without ext items whose map keys are all strings is well-formed and decodes to exactly the value the
    specification assigns -/
theorem mp_model_accepts_judged (maxDepth : Nat) (bs : Bytes) (v : Model.MsgpackParser.Item) (rest : Bytes) (w : Spec.Cbor.BV)
    (hm : Model.MsgpackParser.decode maxDepth bs = .ok v rest) (hv : toBV textKey false v = some w) : Spec.Msgpack.decode bs = .ok w rest := by
  have h := Model.MsgpackParser.decode_agrees maxDepth bs
  cases hs : Spec.Msgpack.decode bs <;> simp_all [Model.MsgpackParser.Agrees]

/-- every ill-formed input is rejected -/
theorem mp_model_rejects_illformed (maxDepth : Nat) (bs : Bytes) (hs : Spec.Msgpack.decode bs = .illformed) :
    ∃ f, Model.MsgpackParser.decode maxDepth bs = .fail f := by
  have h := Model.MsgpackParser.decode_agrees maxDepth bs
  cases hm : Model.MsgpackParser.decode maxDepth bs with
  | ok v rest => simp [hm, hs, Model.MsgpackParser.Agrees] at h
  | fail f => exact ⟨f, rfl⟩

/-- every input the reference accepts is accepted with the same value, unless the nesting limit intervenes (or an element is not a byte) -/
theorem mp_wellformed_is_accepted (maxDepth : Nat) (bs : Bytes) (w : Spec.Cbor.BV) (rest : Bytes) (hs : Spec.Msgpack.decode bs = .ok w rest) :
    (∃ v, Model.MsgpackParser.decode maxDepth bs = .ok v rest ∧ toBV textKey false v = some w) ∨
    Model.MsgpackParser.decode maxDepth bs = .fail (.err .maxNestingDepthExceeded) ∨
    Model.MsgpackParser.decode maxDepth bs = .fail .skip := by
  have h := Model.MsgpackParser.decode_agrees maxDepth bs
  cases hm : Model.MsgpackParser.decode maxDepth bs with
  | ok v r =>
    simp only [hm, hs, Model.MsgpackParser.Agrees] at h
    exact Or.inl ⟨v, by rw [h.2], h.1⟩
  | fail f =>
    simp only [hm, hs, Model.MsgpackParser.Agrees] at h
    cases f with
    | skip => simp
    | fuel => simp [Model.MsgpackParser.Fail.lenient] at h
    | err e => cases e <;> simp_all [Model.MsgpackParser.Fail.lenient]

/-- positive and negative fixint: the type byte is the value (0..127, and -32..-1 as `static_cast<int8_t>`), exactly as the specification says -/
theorem mp_model_fixint_is_spec (maxDepth fuel depth b : Nat) (s : Bytes) :
    (b ≤ 0x7f → Model.MsgpackParser.item maxDepth (fuel + 1) depth (b :: s) = .ok (.uint b) s ∧
                Spec.Msgpack.item (fuel + 1) (b :: s) = .ok (.int b "") s) ∧
    (0xe0 ≤ b ∧ b ≤ 0xff → Model.MsgpackParser.item maxDepth (fuel + 1) depth (b :: s) = .ok (.nint ((b : Int) - 256)) s ∧
                Spec.Msgpack.item (fuel + 1) (b :: s) = .ok (.int ((b : Int) - 256) "") s) := by
  constructor
  · intro h
    have : ¬ 256 ≤ b := by omega
    simp [Model.MsgpackParser.item, Spec.Msgpack.item, this, h]
  · intro h
    have e : ¬ 256 ≤ b ∧ ¬ b ≤ 0x7f ∧ ¬ b ≤ 0x8f ∧ ¬ b ≤ 0x9f ∧ ¬ b ≤ 0xbf ∧ 0xe0 ≤ b ∧
        ¬ b = 0xc0 ∧ ¬ b = 0xc1 ∧ ¬ b = 0xc2 ∧ ¬ b = 0xc3 ∧ ¬ b = 0xc4 ∧ ¬ b = 0xc5 ∧ ¬ b = 0xc6 ∧ ¬ (b = 0xc7 ∨ b = 0xc8 ∨ b = 0xc9) ∧ ¬ b = 0xca ∧ ¬ b = 0xcb ∧
        ¬ b = 0xcc ∧ ¬ b = 0xcd ∧ ¬ b = 0xce ∧ ¬ b = 0xcf ∧ ¬ b = 0xd0 ∧ ¬ b = 0xd1 ∧ ¬ b = 0xd2 ∧ ¬ b = 0xd3 ∧ ¬ (0xd4 ≤ b ∧ b ≤ 0xd8) ∧ ¬ b = 0xd9 ∧ ¬ b = 0xda ∧
        ¬ b = 0xdb ∧ ¬ b = 0xdc ∧ ¬ b = 0xdd ∧ ¬ b = 0xde ∧ ¬ b = 0xdf := by omega
    simp [Model.MsgpackParser.item, Spec.Msgpack.item, e]

/-- uint8/16/32/64 (0xcc + k) and int8/16/32/64 (0xd0 + k), k = 0..3: the 2^k bytes that follow, big-endian, unsigned resp. two's
    complement — the model's value IS the specification's value, for every payload -/
theorem mp_model_int_is_spec_int (maxDepth fuel depth k : Nat) (hk : k < 4) (s d r : Bytes) (ht : takeN (2 ^ k) s = some (d, r)) :
    Model.MsgpackParser.item maxDepth (fuel + 1) depth ((0xcc + k) :: s) = .ok (.uint (Spec.Cbor.beVal d)) r ∧
    Spec.Msgpack.item (fuel + 1) ((0xcc + k) :: s) = .ok (.int (Spec.Cbor.beVal d) "") r ∧
    Model.MsgpackParser.item maxDepth (fuel + 1) depth ((0xd0 + k) :: s) = .ok (.nint (toSigned (8 * 2 ^ k) (Spec.Cbor.beVal d))) r ∧
    Spec.Msgpack.item (fuel + 1) ((0xd0 + k) :: s) = .ok (.int (toSigned (8 * 2 ^ k) (Spec.Cbor.beVal d)) "") r := by
  rcases (by omega : k = 0 ∨ k = 1 ∨ k = 2 ∨ k = 3) with e | e | e | e <;> subst e <;> simp at ht <;>
    simp [Model.MsgpackParser.item, Spec.Msgpack.item, number, readBE_some ht, ht, asSigned_eq]

/-- float32 (widened exactly) and float64: the bit pattern that follows -/
theorem mp_model_float_is_spec (maxDepth fuel depth : Nat) (s d r : Bytes) :
    (takeN 4 s = some (d, r) →
      Model.MsgpackParser.item maxDepth (fuel + 1) depth (0xca :: s) = .ok (.dbl (Spec.Cbor.f32ToF64 (Spec.Cbor.beVal d))) r ∧
      Spec.Msgpack.item (fuel + 1) (0xca :: s) = .ok (.dbl (Spec.Cbor.f32ToF64 (Spec.Cbor.beVal d)) "") r) ∧
    (takeN 8 s = some (d, r) →
      Model.MsgpackParser.item maxDepth (fuel + 1) depth (0xcb :: s) = .ok (.dbl (Spec.Cbor.beVal d)) r ∧
      Spec.Msgpack.item (fuel + 1) (0xcb :: s) = .ok (.dbl (Spec.Cbor.beVal d) "") r) := by
  constructor <;> intro ht <;> simp [Model.MsgpackParser.item, Spec.Msgpack.item, number, readBE_some ht, ht]

/-- the outcome of a str item once its length `n` is known, on the model's and on the reference's side -/
def strOutcomeModel (n : Nat) (s : Bytes) : Model.MsgpackParser.Res Model.MsgpackParser.Item :=
  if s.length < n then .fail (.err .unexpectedEof)
  else if Spec.Rfc8259.validUtf8 (s.take n) then .ok (.str (s.take n)) (s.drop n) else .fail (.err .invalidUtf8TextString)

def strOutcomeSpec (n : Nat) (s : Bytes) : Spec.Cbor.Res Spec.Cbor.BV :=
  if s.length < n then .illformed
  else if Spec.Rfc8259.validUtf8 (s.take n) then .ok (.str (s.take n) "") (s.drop n) else .illformed

theorem readStr_outcome (n : Nat) (s : Bytes) : readStr n s = strOutcomeModel n s := by
  unfold readStr readSpan strOutcomeModel
  by_cases hl : s.length < n
  · simp [hl]
  · cases hu : Spec.Rfc8259.validUtf8 (s.take n) <;> simp [hl, Model.MsgpackParser.badUtf8_eq, hu]

/-- fixstr (0xa0 + n, n < 32) and str8/16/32 (0xd9 + k, a 2^k-byte big-endian length): exactly the specification's outcome — the `n` bytes
    that follow (unexpected_eof / ill-formed if fewer remain), checked by `unicode_traits::validate`, which accepts exactly well-formed
    UTF-8 (C02 `validator_is_rfc3629`) -/
theorem mp_model_str_is_spec (maxDepth fuel depth : Nat) (s : Bytes) :
    (∀ n, n < 32 →
      Model.MsgpackParser.item maxDepth (fuel + 1) depth ((0xa0 + n) :: s) = strOutcomeModel n s ∧
      Spec.Msgpack.item (fuel + 1) ((0xa0 + n) :: s) = strOutcomeSpec n s) ∧
    (∀ k d r, k < 3 → takeN (2 ^ k) s = some (d, r) →
      Model.MsgpackParser.item maxDepth (fuel + 1) depth ((0xd9 + k) :: s) = strOutcomeModel (Spec.Cbor.beVal d) r ∧
      Spec.Msgpack.item (fuel + 1) ((0xd9 + k) :: s) = strOutcomeSpec (Spec.Cbor.beVal d) r) := by
  constructor
  · intro n hn
    have e : ¬ 256 ≤ 0xa0 + n ∧ ¬ 0xa0 + n ≤ 0x7f ∧ ¬ 0xa0 + n ≤ 0x8f ∧ ¬ 0xa0 + n ≤ 0x9f ∧ 0xa0 + n ≤ 0xbf ∧
        ¬ 0xa0 + n = 0xde ∧ ¬ 0xa0 + n = 0xdf ∧ ¬ 0xa0 + n = 0xdc ∧ ¬ 0xa0 + n = 0xdd := by omega
    have e2 : (0xa0 + n) % 32 = n := by omega
    have e3 : 0xa0 + n - 0xa0 = n := by omega
    constructor
    · simp only [Model.MsgpackParser.item, e, e2, if_true, if_false, or_self, readStr_outcome]
    · simp only [Spec.Msgpack.item, e, e3, if_true, if_false, strOutcomeSpec, takeN]
      by_cases hl : s.length < n <;> simp [hl]
  · intro k d r hk ht
    have hspec : ∀ n, (match takeN n r with
        | none => Spec.Cbor.Res.illformed
        | some (d, r) => if Spec.Rfc8259.validUtf8 d then Spec.Cbor.Res.ok (Spec.Cbor.BV.str d "") r else .illformed) = strOutcomeSpec n r := by
      intro n
      simp only [strOutcomeSpec, takeN]
      by_cases hl : r.length < n <;> simp [hl]
    rcases (by omega : k = 0 ∨ k = 1 ∨ k = 2) with e | e | e <;> subst e <;> simp at ht <;> constructor
    · simp [Model.MsgpackParser.item, sized, getSize, readBE_some ht, readStr_outcome]
    · simp [Spec.Msgpack.item, ht]; exact hspec _
    · simp [Model.MsgpackParser.item, sized, getSize, readBE_some ht, readStr_outcome]
    · simp [Spec.Msgpack.item, ht]; exact hspec _
    · simp [Model.MsgpackParser.item, sized, getSize, readBE_some ht, readStr_outcome]
    · simp [Spec.Msgpack.item, ht]; exact hspec _

/-- truncation is never a value: the empty input, a number whose bytes are cut short, a str / bin / ext / array16/32 / map16/32 whose
    length bytes are cut short are all `unexpected_eof` (containers: provided the nesting limit is not hit first) -/
theorem mp_model_truncated_is_eof (maxDepth fuel depth : Nat) (s : Bytes) :
    Model.MsgpackParser.item maxDepth (fuel + 1) depth [] = .fail (.err .unexpectedEof) ∧
    (∀ k, k < 4 → s.length < 2 ^ k →
      Model.MsgpackParser.item maxDepth (fuel + 1) depth ((0xcc + k) :: s) = .fail (.err .unexpectedEof) ∧
      Model.MsgpackParser.item maxDepth (fuel + 1) depth ((0xd0 + k) :: s) = .fail (.err .unexpectedEof)) ∧
    (s.length < 4 → Model.MsgpackParser.item maxDepth (fuel + 1) depth (0xca :: s) = .fail (.err .unexpectedEof)) ∧
    (s.length < 8 → Model.MsgpackParser.item maxDepth (fuel + 1) depth (0xcb :: s) = .fail (.err .unexpectedEof)) ∧
    (∀ k, k < 3 → s.length < 2 ^ k →
      Model.MsgpackParser.item maxDepth (fuel + 1) depth ((0xd9 + k) :: s) = .fail (.err .unexpectedEof) ∧
      Model.MsgpackParser.item maxDepth (fuel + 1) depth ((0xc4 + k) :: s) = .fail (.err .unexpectedEof) ∧
      Model.MsgpackParser.item maxDepth (fuel + 1) depth ((0xc7 + k) :: s) = .fail (.err .unexpectedEof)) ∧
    (∀ k, k < 2 → s.length < 2 * 2 ^ k → depth + 1 ≤ maxDepth →
      Model.MsgpackParser.item maxDepth (fuel + 1) depth ((0xdc + k) :: s) = .fail (.err .unexpectedEof) ∧
      Model.MsgpackParser.item maxDepth (fuel + 1) depth ((0xde + k) :: s) = .fail (.err .unexpectedEof)) := by
  refine ⟨by simp [Model.MsgpackParser.item], ?_, ?_, ?_, ?_, ?_⟩
  · intro k hk hl
    rcases (by omega : k = 0 ∨ k = 1 ∨ k = 2 ∨ k = 3) with e | e | e | e <;> subst e <;> simp at hl <;>
      simp [Model.MsgpackParser.item, number, readBE, hl]
  · intro hl; simp [Model.MsgpackParser.item, number, readBE, hl]
  · intro hl; simp [Model.MsgpackParser.item, number, readBE, hl]
  · intro k hk hl
    rcases (by omega : k = 0 ∨ k = 1 ∨ k = 2) with e | e | e <;> subst e <;> simp at hl <;>
      simp [Model.MsgpackParser.item, sized, getSize, readBE, hl]
  · intro k hk hl hd
    have hdd : ¬ maxDepth < depth + 1 := by omega
    rcases (by omega : k = 0 ∨ k = 1) with e | e <;> subst e <;> simp at hl <;>
      simp [Model.MsgpackParser.item, getSize, readBE, hl, hdd]

/-- 0xc1 ("never used") is `unknown_type` wherever an item is expected, whatever follows; the reference calls it ill-formed -/
theorem mp_model_rejects_c1 (maxDepth fuel depth : Nat) (s : Bytes) :
    Model.MsgpackParser.item maxDepth (fuel + 1) depth (0xc1 :: s) = .fail (.err .unknownType) ∧
    Spec.Msgpack.item (fuel + 1) (0xc1 :: s) = .illformed := by
  constructor <;> simp [Model.MsgpackParser.item, Spec.Msgpack.item]

/-- timestamps (ext type -1 = 0xff): timestamp 32 (fixext4) is the unsigned seconds tagged epoch_second; timestamp 64 (fixext8) is
    nanoseconds (upper 30 bits) and seconds (lower 34 bits); timestamp 96 (ext8, length 12) is uint32 nanoseconds then int64 seconds; the
    last two are delivered as seconds·10^9 + nanoseconds tagged epoch_nano. Any other ext type with these payload sizes is a byte string
    carrying the ext type. -/
theorem mp_model_timestamps (maxDepth fuel depth : Nat) (s d r : Bytes) :
    (takeN 4 s = some (d, r) →
      Model.MsgpackParser.item maxDepth (fuel + 1) depth (0xd6 :: 0xff :: s) = .ok (.epochSec (Spec.Cbor.beVal d)) r) ∧
    (takeN 8 s = some (d, r) →
      Model.MsgpackParser.item maxDepth (fuel + 1) depth (0xd7 :: 0xff :: s) =
        .ok (.epochNano (((Spec.Cbor.beVal d % 2 ^ 34 : Nat) : Int) * 1000000000 + ((Spec.Cbor.beVal d / 2 ^ 34 : Nat) : Int))) r) ∧
    (∀ d2 r2, takeN 4 s = some (d, r) → takeN 8 r = some (d2, r2) →
      Model.MsgpackParser.item maxDepth (fuel + 1) depth (0xc7 :: 12 :: 0xff :: s) =
        .ok (.epochNano (toSigned 64 (Spec.Cbor.beVal d2) * 1000000000 + (Spec.Cbor.beVal d : Int))) r2) ∧
    (∀ ty, ty < 255 → takeN 4 s = some (d, r) →
      Model.MsgpackParser.item maxDepth (fuel + 1) depth (0xd6 :: ty :: s) = .ok (.ext ty d) r) := by
  refine ⟨?_, ?_, ?_, ?_⟩
  · intro ht
    simp [Model.MsgpackParser.item, sized, getSize, readExt, readBE_some ht, readBE_one]
  · intro ht
    simp [Model.MsgpackParser.item, sized, getSize, readExt, readBE_some ht, readBE_one]
  · intro d2 r2 ht ht2
    simp [Model.MsgpackParser.item, sized, getSize, readExt, readBE_some ht, readBE_some ht2, readBE_one, asSigned_eq]
  · intro ty hty ht
    have : ¬ ty = 255 := by omega
    simp [Model.MsgpackParser.item, sized, getSize, readExt, readSpan_some ht, readBE_one, this]

/-- the model's error classes carry the numbers of `enum class msgpack_errc` as extracted from msgpack_error.hpp -/
theorem mp_model_error_codes (e : Model.MsgpackParser.Err) : (e.name, e.code) ∈ JV.Extracted.msgpackErrc := by
  cases e <;> decide

/-! non-vacuity: kernel-evaluated runs of the model next to the reference -/
example : Model.MsgpackParser.decode 1024 [0x93, 0xcc, 0xff, 0xd0, 0x80, 0xc0] = .ok (.arr [.uint 255, .nint (-128), .null]) [] := by rfl
example : toBV textKey false (.arr [.uint 255, .nint (-128), .null]) = some (.arr [.int 255 "", .int (-128) "", .null]) := by rfl
example : Spec.Msgpack.decode [0x93, 0xcc, 0xff, 0xd0, 0x80, 0xc0] = .ok (.arr [.int 255 "", .int (-128) "", .null]) [] := by rfl
example : Model.MsgpackParser.decode 1024 [0x81, 0xa1, 0x61, 0xc4, 0x01, 0x07] = .ok (.map [(.str [0x61], .bytes [7])]) [] := by rfl
example : Model.MsgpackParser.decode 1024 [0xc1] = .fail (.err .unknownType) := by rfl
example : Model.MsgpackParser.decode 1024 [0xa1, 0xff] = .fail (.err .invalidUtf8TextString) := by rfl
example : Spec.Msgpack.decode [0xa1, 0xff] = .illformed := by rfl
example : Model.MsgpackParser.decode 1024 [0xcd, 0x01] = .fail (.err .unexpectedEof) := by rfl
example : Model.MsgpackParser.decode 1024 [] = .fail (.err .unexpectedEof) := by rfl
example : Model.MsgpackParser.decode 1024 [0xdc, 0x00] = .fail (.err .unexpectedEof) := by rfl
example : Model.MsgpackParser.decode 2 [0x91, 0x91, 0x91, 0x00] = .fail (.err .maxNestingDepthExceeded) := by rfl
example : Model.MsgpackParser.decode 2 [0x91, 0x91, 0x00] = .ok (.arr [.arr [.uint 0]]) [] := by rfl
example : Model.MsgpackParser.decode 1024 [0xd3, 0x80, 0, 0, 0, 0, 0, 0, 0] = .ok (.nint (-9223372036854775808)) [] := by rfl
example : Model.MsgpackParser.decode 1024 [0xcf, 0xff, 0xff, 0xff, 0xff, 0xff, 0xff, 0xff, 0xff] = .ok (.uint 18446744073709551615) [] := by rfl
example : Model.MsgpackParser.decode 1024 [0xe0] = .ok (.nint (-32)) [] := by rfl
example : Model.MsgpackParser.decode 1024 [0xd6, 0xff, 0, 0, 0, 7] = .ok (.epochSec 7) [] := by rfl
example : Model.MsgpackParser.decode 1024 [0xd7, 0xff, 0, 0, 0, 4, 0, 0, 0, 2] = .ok (.epochNano 2000000001) [] := by rfl
example : Model.MsgpackParser.decode 1024 [0xc7, 12, 0xff, 0, 0, 0, 1, 0xff, 0xff, 0xff, 0xff, 0xff, 0xff, 0xff, 0xff] = .ok (.epochNano (-999999999)) [] := by rfl
example : Model.MsgpackParser.decode 1024 [0xd7, 0xff, 0xff, 0xff, 0xff, 0xfc, 0, 0, 0, 0] = .ok (.epochNano 1073741823) [] := by rfl   -- nanoseconds 2^30-1 > 999999999: accepted
example : Model.MsgpackParser.decode 1024 [0xd4, 0x05, 0x61] = .ok (.ext 5 [0x61]) [] := by rfl
example : toBV textKey false (.ext 5 [0x61]) = none ∧ Spec.Msgpack.decode [0xd4, 0x05, 0x61] = .unjudged := by constructor <;> rfl
example : toBV renderKey true (.ext 5 [0x61]) = some (.bytes [0x61] "ext") := by rfl
example : Model.MsgpackParser.decode 1024 [0x81, 0x01, 0x02] = .ok (.map [(.uint 1, .uint 2)]) [] := by rfl
example : toBV textKey false (.map [(.uint 1, .uint 2)]) = none ∧ Spec.Msgpack.decode [0x81, 0x01, 0x02] = .unjudged := by constructor <;> rfl
example : toBV renderKey true (.map [(.bool true, .uint 2)]) = some (.map [([116, 114, 117, 101], .int 2 "")]) := by rfl   -- the adaptor renders the key `true`
example : Model.MsgpackParser.decode 1024 [0xd4, 0xff] = .fail (.err .unexpectedEof) := by rfl

end msgpack_parser_model

section ubjson_parser_model
open Model.UbjsonParser Spec

/-- every integer marker (i U I l L), in any position, at every fuel, depth and option setting: when the payload is there the model
    (= the real read_value) and the reference yield the same integer and the same rest -/
theorem ubj_model_int_is_spec_int (o : Opts) (fuel depth : Nat) (s d r : Bytes) :
    (takeN 1 s = some (d, r) →
      value o (fuel + 1) depth 105 s = .ok (.nint (toSigned 8 (beVal d))) r ∧ Spec.Ubjson.valueOf (fuel + 1) 105 s = .ok (.int (toSigned 8 (beVal d)) "") r ∧
      value o (fuel + 1) depth 85 s = .ok (.uint (beVal d)) r ∧ Spec.Ubjson.valueOf (fuel + 1) 85 s = .ok (.int (beVal d) "") r) ∧
    (takeN 2 s = some (d, r) →
      value o (fuel + 1) depth 73 s = .ok (.nint (toSigned 16 (beVal d))) r ∧ Spec.Ubjson.valueOf (fuel + 1) 73 s = .ok (.int (toSigned 16 (beVal d)) "") r) ∧
    (takeN 4 s = some (d, r) →
      value o (fuel + 1) depth 108 s = .ok (.nint (toSigned 32 (beVal d))) r ∧ Spec.Ubjson.valueOf (fuel + 1) 108 s = .ok (.int (toSigned 32 (beVal d)) "") r) ∧
    (takeN 8 s = some (d, r) →
      value o (fuel + 1) depth 76 s = .ok (.nint (toSigned 64 (beVal d))) r ∧ Spec.Ubjson.valueOf (fuel + 1) 76 s = .ok (.int (toSigned 64 (beVal d)) "") r) := by
  refine ⟨?_, ?_, ?_, ?_⟩ <;> intro ht <;> unfold Spec.Ubjson.valueOf <;>
    simp [value, Spec.Ubjson.valueOf, Spec.Ubjson.intOf, number, readBE_some ht, ht, asSigned_eq]

/-- float32 (widened exactly) and float64 -/
theorem ubj_model_float_is_spec (o : Opts) (fuel depth : Nat) (s d r : Bytes) :
    (takeN 4 s = some (d, r) →
      value o (fuel + 1) depth 100 s = .ok (.dbl (f32ToF64 (beVal d))) r ∧ Spec.Ubjson.valueOf (fuel + 1) 100 s = .ok (.dbl (f32ToF64 (beVal d)) "") r) ∧
    (takeN 8 s = some (d, r) →
      value o (fuel + 1) depth 68 s = .ok (.dbl (beVal d)) r ∧ Spec.Ubjson.valueOf (fuel + 1) 68 s = .ok (.dbl (beVal d) "") r) := by
  constructor <;> intro ht <;> unfold Spec.Ubjson.valueOf <;> simp [value, number, readBE_some ht, ht]

/-- S: whenever the reference reads the length item (any of i U I l L, not negative), the model reads the same length, and then both
    sides have the same outcome: too few bytes → unexpected_eof / ill-formed, invalid UTF-8 → invalid_utf8_text_string / ill-formed,
    otherwise the same string and the same rest -/
theorem ubj_model_str_is_spec (o : Opts) (fuel depth : Nat) (s r : Bytes) (n : Nat) (hl : Spec.Ubjson.length s = some (n, r)) :
    (r.length < n → value o (fuel + 1) depth 83 s = .fail (.err .unexpectedEof) ∧ Spec.Ubjson.valueOf (fuel + 1) 83 s = .illformed) ∧
    (¬ r.length < n → Rfc8259.validUtf8 (r.take n) = false →
      value o (fuel + 1) depth 83 s = .fail (.err .invalidUtf8TextString) ∧ Spec.Ubjson.valueOf (fuel + 1) 83 s = .illformed) ∧
    (¬ r.length < n → Rfc8259.validUtf8 (r.take n) = true →
      value o (fuel + 1) depth 83 s = .ok (.str (r.take n)) (r.drop n) ∧ Spec.Ubjson.valueOf (fuel + 1) 83 s = .ok (.str (r.take n) "") (r.drop n)) := by
  have hg := getLength_of_spec hl
  refine ⟨?_, ?_, ?_⟩
  · intro h
    unfold Spec.Ubjson.valueOf
    simp [value, Spec.Ubjson.valueOf, readStr, hg, hl, readSpan, takeN, h]
  · intro h hv
    unfold Spec.Ubjson.valueOf
    simp [value, Spec.Ubjson.valueOf, readStr, hg, hl, readSpan, takeN, h, badUtf8_eq, hv]
  · intro h hv
    unfold Spec.Ubjson.valueOf
    simp [value, Spec.Ubjson.valueOf, readStr, hg, hl, readSpan, takeN, h, badUtf8_eq, hv]

/-- truncation: no type byte, a number whose payload is short, a char without its byte, a string / high-precision number / key without
    its length item, a container that stops after `[` / `{` / `$` / `$t`: unexpected_eof (key_expected for the key) -/
theorem ubj_model_truncated_is_eof (o : Opts) (fuel depth : Nat) (s : Bytes) :
    decodeWith o fuel [] = .fail (.err .unexpectedEof) ∧
    (s.length < 1 → value o (fuel + 1) depth 105 s = .fail (.err .unexpectedEof) ∧ value o (fuel + 1) depth 85 s = .fail (.err .unexpectedEof) ∧
      value o (fuel + 1) depth 67 s = .fail (.err .unexpectedEof) ∧ value o (fuel + 1) depth 83 s = .fail (.err .unexpectedEof) ∧
      value o (fuel + 1) depth 72 s = .fail (.err .unexpectedEof) ∧ readKey s = .fail (.err .keyExpected)) ∧
    (s.length < 2 → value o (fuel + 1) depth 73 s = .fail (.err .unexpectedEof)) ∧
    (s.length < 4 → value o (fuel + 1) depth 108 s = .fail (.err .unexpectedEof) ∧ value o (fuel + 1) depth 100 s = .fail (.err .unexpectedEof)) ∧
    (s.length < 8 → value o (fuel + 1) depth 76 s = .fail (.err .unexpectedEof) ∧ value o (fuel + 1) depth 68 s = .fail (.err .unexpectedEof)) ∧
    (depth + 1 ≤ o.maxDepth → ∀ isArr t,
      container o (fuel + 1) depth isArr [] = .fail (.err .unexpectedEof) ∧ container o (fuel + 1) depth isArr [36] = .fail (.err .unexpectedEof) ∧
      container o (fuel + 1) depth isArr [36, t] = .fail (.err .unexpectedEof)) := by
  refine ⟨rfl, ?_, ?_, ?_, ?_, ?_⟩
  · intro h
    have : s = [] := by cases s <;> simp_all
    subst this
    simp [value, number, readBE, readChar, readStr, readBig, getLength, readKey]
  · intro h; simp [value, number, readBE_short h]
  · intro h; simp [value, number, readBE_short h]
  · intro h; simp [value, number, readBE_short h]
  · intro h isArr t
    have : ¬ depth + 1 > o.maxDepth := by omega
    simp [container, this]

/-- the limits come first: a container at the nesting limit is max_nesting_depth_exceeded whatever follows; a count above max_items is
    max_items_exceeded -/
theorem ubj_model_limits (o : Opts) (fuel depth : Nat) (isArr : Bool) (s r : Bytes) (n ty : Nat) :
    (o.maxDepth < depth + 1 → container o (fuel + 1) depth isArr s = .fail (.err .maxNestingDepthExceeded)) ∧
    (depth + 1 ≤ o.maxDepth → getLength s = .ok n r → o.maxItems < n →
      container o (fuel + 1) depth isArr (35 :: s) = .fail (.err .maxItemsExceeded) ∧
      container o (fuel + 1) depth isArr (36 :: ty :: 35 :: s) = .fail (.err .maxItemsExceeded)) := by
  constructor
  · intro h; simp [container, h]
  · intro h hg hn
    have : ¬ depth + 1 > o.maxDepth := by omega
    simp [container, this, hg, hn]

/-- the model's error numbers are the header's `ubjson_errc` numbers -/
theorem ubj_model_error_codes (e : Model.UbjsonParser.Err) : (e.name, e.code) ∈ JV.Extracted.ubjsonErrc := by
  cases e <;> decide

/-! non-vacuity: kernel-evaluated runs of the model next to the reference -/
example : decode {} [91, 36, 105, 35, 85, 2, 255, 1] = .ok (.arr [.nint (-1), .nint 1]) [] := by rfl
example : toBV false false (.arr [.nint (-1), .nint 1]) = some (.arr [.int (-1) "", .int 1 ""]) := by rfl
example : decode {} [123, 105, 1, 97, 83, 105, 1, 98, 125] = .ok (.map [([97], .str [98])]) [] := by rfl
example : decode {} [91, 36, 78, 35, 105, 3] = .ok (.arr [.noop, .noop, .noop]) [] := by rfl
example : toBV true true (.arr [.noop, .noop, .noop]) = some (.arr []) := by rfl
example : decode {} [72, 85, 2, 45, 53] = .ok (.big [45, 53] true) [] := by rfl
example : decode {} [72, 85, 2, 255, 254] = .ok (.big [255, 254] false) [] := by rfl
example : decode {} [91, 35, 105, 255] = .fail (.err .lengthIsNegative) := by rfl
example : decode {} [123, 90] = .fail (.err .keyExpected) := by rfl
example : decode {} [91, 36, 105, 88] = .fail (.err .countRequiredAfterType) := by rfl
example : decode { maxItems := 2 } [91, 84, 84, 84, 93] = .fail (.err .maxItemsExceeded) := by rfl
example : decode { maxDepth := 1 } [91, 91, 93, 93] = .fail (.err .maxNestingDepthExceeded) := by rfl
example : decode {} [67, 128] = .fail (.err .invalidUtf8TextString) := by rfl

end ubjson_parser_model

end JV.Props.C07
