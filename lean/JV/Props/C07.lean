/-
  C07 — binary decoders implement their specifications.

  PROVED (this file; helper lemmas in JV/Proofs/CborParser.lean):
    * the real CBOR decoder's logic — JV.Model.CborParser, a functional transcription of cbor_parser.hpp (read_item, read_uint64,
      read_int64, read_size, read_text_string_view / read_byte_string_view, iterate_string_chunks, read_double, begin/end_array/object
      with the nesting-depth check, the parse_mode state stack flattened into structural recursion) for the item grammar without tags,
      stringrefs and typed arrays — REFINES the RFC 8949 reference decoder JV.Spec.Cbor on every byte string, every fuel and every
      max_nesting_depth (`cbor_parser_model_refines_spec`, relation `Agrees`, value mapping `toBV textKey`):
        - it accepts only well-formed input, and the value it yields is the value the RFC assigns (`model_value_is_spec_value`,
          `model_accepts_only_wellformed`, `model_accepts_text_keyed`);
        - it rejects every ill-formed input (`model_rejects_illformed`) and accepts every well-formed input the reference judges,
          except for three documented outcomes that carry no claim about well-formedness: `max_nesting_depth_exceeded` (an implementation
          limit), `number_too_large` (-1-n below INT64_MIN) and `skip` (a tag: outside the modelled fragment) (`wellformed_is_accepted`);
      fragments stated separately for all inputs: `model_head_is_spec_head`, `model_int_is_spec_int`, `model_definite_string_is_spec`,
      `model_rejects_reserved`, `model_truncated_head_is_eof`, `model_break_outside_indefinite_is_error`, `model_error_codes`.
    * facts about the reference itself that the property names: `head_roundtrip`, `int_roundtrip`, `reserved_rejected`,
      `reserved_simple_rejected`, `truncated_head_rejected`, `half_sign_symmetric`, `half_normal`.

  OBSERVED on every run (checks/c07.py):
    * model = real code: stream `cbor-decoder-model` feeds the same bytes to the real decoder (`bin dec cbor`) and to the model
      (`bin mdec cbor`): identical error code, or identical value after the json_decoder's member-list normalisation; inputs with tags
      answer `skip`. Non-text map keys (rendered to text by basic_generic_to_json_visitor) are modelled for integers, booleans, null,
      undefined and byte strings and tied; the reference leaves them unjudged.
    * real code = reference: the real CBOR / MessagePack / UBJSON / BSON decoders against the reference decoders written in Lean from the
      specifications (JV.Spec.Cbor, JV.Spec.BinFormats) on reference encodings in every legal width and form, mutations, every strict
      prefix, every 1–2 (thorough: sampled 3) byte string. The MessagePack, UBJSON and BSON decoders themselves are not modelled.
  Fuel adequacy IS proved (JV.Proofs.CborParserFuel, stated in Props.C05.cbor_fuel_suffices): with `decode`'s fuel 2·|input|+2 the
  model never answers `Fail.fuel`, because every item read consumes at least one byte.
  NOT proved: the float32→double widening is taken as the IEEE function f32ToF64.
-/
import JV.Spec.Cbor
import JV.Spec.BinFormats
import JV.Model.Cbor
import JV.Model.CborParser
import JV.Proofs.CborParser
import JV.Extracted.ErrorCodes
namespace JV.Props.C07
open JV Spec.Cbor Model.Cbor

/-- the argument of a head written by the encoder is read back exactly, for every width the ladder picks -/
theorem head_roundtrip (major n : Nat) (hm : major < 8) (hn : n < 2 ^ 64) (rest : Bytes) :
    ∃ ib tail, writeHead major n ++ rest = ib :: tail ∧ ib / 32 = major ∧ ib % 32 < 28 ∧ readArg (ib % 32) tail = some (n, rest) := by
  unfold writeHead
  by_cases h1 : n ≤ 0x17
  · refine ⟨major * 32 + n, rest, by simp [h1], by omega, by omega, ?_⟩
    have : (major * 32 + n) % 32 = n := by omega
    simp [readArg, this]; omega
  · by_cases h2 : n ≤ 0xff
    · refine ⟨major * 32 + 0x18, n :: rest, by simp [h1, h2], by omega, by omega, ?_⟩
      have : (major * 32 + 0x18) % 32 = 24 := by omega
      simp [readArg, this, beVal]
    · by_cases h3 : n ≤ 0xffff
      · refine ⟨major * 32 + 0x19, beBytes 2 n ++ rest, by simp [h1, h2, h3], by omega, by omega, ?_⟩
        have : (major * 32 + 0x19) % 32 = 25 := by omega
        simp only [readArg, this, beBytes]
        simp [beVal]
        omega
      · by_cases h4 : n ≤ 0xffffffff
        · refine ⟨major * 32 + 0x1a, beBytes 4 n ++ rest, by simp [h1, h2, h3, h4], by omega, by omega, ?_⟩
          have : (major * 32 + 0x1a) % 32 = 26 := by omega
          simp only [readArg, this, beBytes]
          simp [beVal]
          omega
        · refine ⟨major * 32 + 0x1b, beBytes 8 n ++ rest, by simp [h1, h2, h3, h4], by omega, by omega, ?_⟩
          have : (major * 32 + 0x1b) % 32 = 27 := by omega
          simp only [readArg, this, beBytes]
          simp [beVal]
          omega

/-- every int64 written by the encoder model decodes to exactly that integer (both majors, all widths) -/
theorem int_roundtrip (v : Int) (hlo : -(2 ^ 63 : Int) ≤ v) (hhi : v < 2 ^ 63) :
    decode (writeInt v) = .ok (.int v "") [] := by
  unfold writeInt
  by_cases hv : v ≥ 0
  · simp only [hv, if_true]
    obtain ⟨ib, tail, he, hmaj, hai, hr⟩ := head_roundtrip 0 v.toNat (by omega) (by omega) []
    simp only [List.append_nil] at he
    rw [he]
    have h7 : ¬ ib / 32 = 7 := by omega
    have h28 : ¬ (ib % 32 ≥ 28 ∧ ib % 32 ≤ 30) := by omega
    have h31 : ¬ ib % 32 = 31 := by omega
    have e : ((v.toNat : Nat) : Int) = v := Int.toNat_of_nonneg hv
    simp [decode, item, h7, h28, h31, hr, hmaj, e]
  · simp only [hv, if_false]
    obtain ⟨ib, tail, he, hmaj, hai, hr⟩ := head_roundtrip 1 (-1 - v).toNat (by omega) (by omega) []
    simp only [List.append_nil] at he
    rw [he]
    have h7 : ¬ ib / 32 = 7 := by omega
    have h0 : ¬ ib / 32 = 0 := by omega
    have h28 : ¬ (ib % 32 ≥ 28 ∧ ib % 32 ≤ 30) := by omega
    have h31 : ¬ ib % 32 = 31 := by omega
    have hsmall : ¬ ((-1 - v).toNat ≥ 2 ^ 63) := by omega
    have e : (((-1 - v).toNat : Nat) : Int) = -1 - v := Int.toNat_of_nonneg (by omega)
    have e2 : -1 - (-1 - v) = v := by omega
    simp [decode, item, h7, h28, h31, h0, hr, hmaj, hsmall, e, e2]

/-- reserved additional information 28–30 is ill-formed on every major type 0–6, whatever follows -/
theorem reserved_rejected (ib : Nat) (hmaj : ib / 32 ≠ 7) (hai : 28 ≤ ib % 32 ∧ ib % 32 ≤ 30) (rest : Bytes) (fuel : Nat) (tag : Option Nat) :
    item (fuel + 1) tag (ib :: rest) = .illformed := by
  simp [item, hmaj, hai]

/-- … and on major type 7 (28–30 and the stray break 31) -/
theorem reserved_simple_rejected (ai : Nat) (h : 28 ≤ ai ∧ ai ≤ 31) (rest : Bytes) (fuel : Nat) (tag : Option Nat) :
    item (fuel + 1) tag ((224 + ai) :: rest) = .illformed := by
  have h1 : (224 + ai) / 32 = 7 := by omega
  have h2 : (224 + ai) % 32 = ai := by omega
  have : ai ≠ 20 ∧ ai ≠ 21 ∧ ai ≠ 22 ∧ ai ≠ 23 ∧ ai ≠ 25 ∧ ai ≠ 26 ∧ ai ≠ 27 := by omega
  by_cases h31 : ai = 31
  · simp [item, h1, h2, h31]
  · have h28 : ai ≥ 28 := h.1
    simp [item, h1, h2, this, h31, h28]

/-- an empty input, or a head whose argument bytes are missing, is ill-formed (truncation is never a value) -/
theorem truncated_head_rejected (major ai : Nat) (hm : major < 7) (hai : 24 ≤ ai ∧ ai ≤ 27) (fuel : Nat) (tag : Option Nat) :
    item (fuel + 1) tag [major * 32 + ai] = .illformed := by
  have h1 : (major * 32 + ai) / 32 = major := by omega
  have h2 : (major * 32 + ai) % 32 = ai := by omega
  have h7 : major ≠ 7 := by omega
  have h28 : ¬ (ai ≥ 28 ∧ ai ≤ 30) := by omega
  have h31 : ai ≠ 31 := by omega
  have hr : readArg ai [] = none := by
    unfold readArg
    have : ¬ ai < 24 := by omega
    rcases (by omega : ai = 24 ∨ ai = 25 ∨ ai = 26 ∨ ai = 27) with e | e | e | e <;> simp [e]
  simp [item, h1, h2, h7, h28, h31, hr]

/-- binary16 → binary64 keeps the sign for every pattern, zeros and subnormals included (the reference the `cbor-float16` stream compares
    `decode_half`, `as<double>()` and `decode_cbor<double>` with) -/
theorem half_sign_symmetric (h : Nat) (hh : h < 32768) : f16ToF64 (h + 32768) = f16ToF64 h + 2 ^ 63 := by
  have h1 : (h + 32768) / 32768 = 1 := by omega
  have h2 : h / 32768 = 0 := by omega
  have h3 : (h + 32768) / 1024 % 32 = h / 1024 % 32 := by omega
  have h4 : (h + 32768) % 1024 = h % 1024 := by omega
  unfold f16ToF64
  simp only [h1, h2, h3, h4]
  split
  · omega
  · split
    · split <;> omega
    · omega

/-- normal halves: the exponent is re-biased by 1008 and the ten fraction bits move to the top of the 52 -/
theorem half_normal (s e m : Nat) (hs : s < 2) (he : 0 < e ∧ e < 31) (hm : m < 1024) :
    f16ToF64 (s * 32768 + e * 1024 + m) = s * 2 ^ 63 + (e + 1008) * 2 ^ 52 + m * 2 ^ 42 := by
  have h1 : (s * 32768 + e * 1024 + m) / 32768 = s := by omega
  have h2 : (s * 32768 + e * 1024 + m) / 1024 % 32 = e := by omega
  have h3 : (s * 32768 + e * 1024 + m) % 1024 = m := by omega
  unfold f16ToF64
  simp only [h1, h2, h3]
  have : e ≠ 31 := by omega
  have : e ≠ 0 := by omega
  simp [*]

example : f16ToF64 0x8001 = 0xbe70000000000000 := by decide
example : f16ToF64 0x8000 = 0x8000000000000000 := by decide
example : f16ToF64 0x03ff = 0x3f0ff80000000000 := by decide

/-! ### kernel-evaluated instances (non-vacuity; formats other than CBOR) -/
example : decode [0x83, 0x01, 0x20, 0xf6] = .ok (.arr [.int 1 "", .int (-1) "", .null]) [] := by rfl
example : decode [0x9f, 0x01, 0xff] = .ok (.arr [.int 1 ""]) [] := by rfl
example : decode [0xff] = .illformed := by rfl
example : decode [0x5f, 0x61, 0x61, 0xff] = .illformed := by rfl                    -- text chunk inside a byte string
example : decode [0x61, 0xff] = .illformed := by rfl                                -- invalid UTF-8
example : Spec.Msgpack.decode [0x92, 0xcc, 0xff, 0xd0, 0x80] = .ok (.arr [.int 255 "", .int (-128) ""]) [] := by rfl
example : Spec.Msgpack.decode [0xc1] = .illformed := by rfl
example : Spec.Bson.decode [0x0c, 0, 0, 0, 0x10, 0x61, 0, 1, 0, 0, 0, 0] = .ok (.map [([0x61], .int 1 "")]) [] := by rfl
example : Spec.Bson.decode [0x0d, 0, 0, 0, 0x10, 0x61, 0, 1, 0, 0, 0, 0] = .illformed := by rfl   -- size mismatch

/-! ### the real decoder's logic (JV.Model.CborParser) refines the RFC 8949 reference -/
section parser_model
open Model.CborParser

/-- THE REFINEMENT. For every byte string and every `max_nesting_depth`, the outcome of the cbor_parser model and the outcome of the RFC 8949
    reference decoder are related by `Agrees (toBV textKey)`:
      model value v, rest  /  reference value w, rest2   ⇒  toBV textKey v = some w ∧ rest = rest2   (same value, same bytes consumed)
      model value v        /  reference unjudged          ⇒  toBV textKey v = none                    (v has a map key that is not a text string)
      model value          /  reference ill-formed        ⇒  impossible
      model failure f      /  reference value             ⇒  f is max_nesting_depth_exceeded, number_too_large or skip (tag)
    where `toBV textKey` is the documented value mapping: uint n ↦ int n, nint i ↦ int i, half / double / text / bytes unchanged with the
    empty tag, undefined ↦ undef, arrays and maps member-wise with text keys. -/
theorem cbor_parser_model_refines_spec (maxDepth : Nat) (bs : Bytes) :
    Agrees (toBV textKey) (Model.CborParser.decode maxDepth bs) (Spec.Cbor.decode bs) :=
  decode_agrees maxDepth bs

/-- the same at every fuel and nesting depth, for items in any position -/
theorem cbor_parser_item_refines_spec (maxDepth fuel depth : Nat) (s : Bytes) :
    Agrees (toBV textKey) (Model.CborParser.item maxDepth fuel depth s) (Spec.Cbor.item fuel none s) :=
  (agree_all maxDepth fuel).1 depth s

/-- whenever both decoders produce a value it is the same value and the same number of bytes was consumed -/
theorem model_value_is_spec_value (maxDepth : Nat) (bs : Bytes) (v : Item) (rest : Bytes) (w : BV) (rest2 : Bytes)
    (hm : Model.CborParser.decode maxDepth bs = .ok v rest) (hs : Spec.Cbor.decode bs = .ok w rest2) :
    toBV textKey v = some w ∧ rest = rest2 := by
  have h := decode_agrees maxDepth bs
  simpa [hm, hs, Agrees] using h

/-- the model never accepts an ill-formed input -/
theorem model_accepts_only_wellformed (maxDepth : Nat) (bs : Bytes) (v : Item) (rest : Bytes)
    (hm : Model.CborParser.decode maxDepth bs = .ok v rest) : Spec.Cbor.decode bs ≠ .illformed := by
  intro hs
  have h := decode_agrees maxDepth bs
  simp [hm, hs, Agrees] at h

/-- an accepted input whose map keys are all text strings is well-formed and decodes to exactly the value the RFC assigns -/
theorem model_accepts_text_keyed (maxDepth : Nat) (bs : Bytes) (v : Item) (rest : Bytes) (w : BV)
    (hm : Model.CborParser.decode maxDepth bs = .ok v rest) (hv : toBV textKey v = some w) : Spec.Cbor.decode bs = .ok w rest := by
  have h := decode_agrees maxDepth bs
  cases hs : Spec.Cbor.decode bs <;> simp_all [Agrees]

/-- every ill-formed input is rejected (or, if it starts with a tag, outside the fragment) -/
theorem model_rejects_illformed (maxDepth : Nat) (bs : Bytes) (hs : Spec.Cbor.decode bs = .illformed) :
    ∃ f, Model.CborParser.decode maxDepth bs = .fail f := by
  have h := decode_agrees maxDepth bs
  cases hm : Model.CborParser.decode maxDepth bs with
  | ok v rest => simp [hm, hs, Agrees] at h
  | fail f => exact ⟨f, rfl⟩

/-- every input the reference accepts is accepted with the same value, unless the nesting limit, the int64 range or a tag intervenes -/
theorem wellformed_is_accepted (maxDepth : Nat) (bs : Bytes) (w : BV) (rest : Bytes) (hs : Spec.Cbor.decode bs = .ok w rest) :
    (∃ v, Model.CborParser.decode maxDepth bs = .ok v rest ∧ toBV textKey v = some w) ∨
    Model.CborParser.decode maxDepth bs = .fail (.err .maxNestingDepthExceeded) ∨
    Model.CborParser.decode maxDepth bs = .fail (.err .numberTooLarge) ∨
    Model.CborParser.decode maxDepth bs = .fail .skip := by
  have h := decode_agrees maxDepth bs
  cases hm : Model.CborParser.decode maxDepth bs with
  | ok v r =>
    simp only [hm, hs, Agrees] at h
    exact Or.inl ⟨v, by rw [h.2], h.1⟩
  | fail f =>
    simp only [hm, hs, Agrees] at h
    cases f with
    | skip => simp
    | fuel => simp [Fail.lenient] at h
    | err e => cases e <;> simp_all [Fail.lenient]

/-- `read_uint64` is the RFC's argument reader for every initial byte and every tail: additional information 0..23 direct, 24..27 the
    following 1/2/4/8 bytes big-endian (missing bytes → unexpected_eof), 28..31 → unknown_type -/
theorem model_head_is_spec_head (ib : Nat) (s : Bytes) :
    readUint64 (ib :: s) =
      if 28 ≤ ib % 32 then .fail (.err .unknownType)
      else match readArg (ib % 32) s with | some (n, r) => .ok n r | none => .fail (.err .unexpectedEof) :=
  readUint64_eq ib s

/-- majors 0 and 1, every width: n and -1-n exactly as the RFC says, over the full 64-bit argument; the only deviation is
    `number_too_large` for -1-n below -2^63 (which needs the 8-byte form) -/
theorem model_int_is_spec_int (maxDepth fuel depth ib : Nat) (s : Bytes) (n : Nat) (r : Bytes) (hai : ib % 32 < 28)
    (hr : readArg (ib % 32) s = some (n, r)) :
    (ib / 32 = 0 → Model.CborParser.item maxDepth (fuel + 1) depth (ib :: s) = .ok (.uint n) r ∧
                   Spec.Cbor.item (fuel + 1) none (ib :: s) = .ok (.int n "") r) ∧
    (ib / 32 = 1 → Spec.Cbor.item (fuel + 1) none (ib :: s) = .ok (.int (-1 - (n : Int)) "") r ∧
                   Model.CborParser.item maxDepth (fuel + 1) depth (ib :: s) =
                     if ib % 32 = 27 ∧ n > 2 ^ 63 - 1 then .fail (.err .numberTooLarge) else .ok (.nint (-1 - (n : Int))) r) := by
  have h28 : ¬ 28 ≤ ib % 32 := by omega
  have h1 : ¬ (ib % 32 ≥ 28 ∧ ib % 32 ≤ 30) := by omega
  have h2 : ¬ ib % 32 = 31 := by omega
  constructor
  · intro hm
    have e7 : ¬ ib / 32 = 7 := by omega
    simp [Model.CborParser.item, Spec.Cbor.item, hm, e7, readUint64_eq, h28, h1, h2, hr]
  · intro hm
    have e7 : ¬ ib / 32 = 7 := by omega
    constructor
    · by_cases hn : n ≥ 2 ^ 63 <;> simp [Spec.Cbor.item, hm, e7, h1, h2, hr, hn]
    · simp only [Model.CborParser.item, hm, readInt64_eq, h28, hr]
      by_cases hbig : ib % 32 = 27 ∧ n > 2 ^ 63 - 1 <;> simp [hbig]

/-- definite text and byte strings: exactly the RFC's outcome — the `n` bytes that follow the head (unexpected_eof / ill-formed if fewer
    remain), text additionally checked by `unicode_traits::validate`, which accepts exactly well-formed UTF-8 (C02 `validator_is_rfc3629`) -/
theorem model_definite_string_is_spec (maxDepth fuel depth ib : Nat) (s : Bytes) (n : Nat) (s1 : Bytes) (hai : ib % 32 < 28)
    (hr : readArg (ib % 32) s = some (n, s1)) :
    (ib / 32 = 2 → Model.CborParser.item maxDepth (fuel + 1) depth (ib :: s) =
        (if s1.length < n then .fail (.err .unexpectedEof) else .ok (.bytes (s1.take n)) (s1.drop n)) ∧
      Spec.Cbor.item (fuel + 1) none (ib :: s) = (if s1.length < n then .illformed else .ok (.bytes (s1.take n) "") (s1.drop n))) ∧
    (ib / 32 = 3 → Model.CborParser.item maxDepth (fuel + 1) depth (ib :: s) =
        (if s1.length < n then .fail (.err .unexpectedEof)
         else if Spec.Rfc8259.validUtf8 (s1.take n) then .ok (.str (s1.take n)) (s1.drop n) else .fail (.err .invalidUtf8TextString)) ∧
      Spec.Cbor.item (fuel + 1) none (ib :: s) =
        (if s1.length < n then .illformed
         else if Spec.Rfc8259.validUtf8 (s1.take n) then .ok (.str (s1.take n) "") (s1.drop n) else .illformed)) := by
  have h28 : ¬ 28 ≤ ib % 32 := by omega
  have h1 : ¬ (ib % 32 ≥ 28 ∧ ib % 32 ≤ 30) := by omega
  have h2 : ¬ ib % 32 = 31 := by omega
  constructor
  · intro hm
    have e7 : ¬ ib / 32 = 7 := by omega
    by_cases hl : s1.length < n <;>
      simp [Model.CborParser.item, Spec.Cbor.item, hm, e7, readString, readSize, readUint64_eq, h28, h1, h2, hr, hl]
  · intro hm
    have e7 : ¬ ib / 32 = 7 := by omega
    by_cases hl : s1.length < n
    · simp [Model.CborParser.item, Spec.Cbor.item, hm, e7, readString, readSize, readUint64_eq, h28, h1, h2, hr, hl]
    · cases hu : Spec.Rfc8259.validUtf8 (s1.take n) <;>
        simp [Model.CborParser.item, Spec.Cbor.item, hm, e7, readString, readSize, readUint64_eq, badUtf8_eq, h28, h1, h2, hr, hl, hu]

/-- reserved additional information 28..30 (and 31 where no indefinite form exists) is `unknown_type`: in every argument read, and for
    items of majors 0–3 and 7 wherever they stand (majors 4/5 first count the nesting level) -/
theorem model_rejects_reserved (ib : Nat) (s : Bytes) (h : 28 ≤ ib % 32) :
    readUint64 (ib :: s) = .fail (.err .unknownType) ∧ readInt64 (ib :: s) = .fail (.err .unknownType) ∧
    (∀ maxDepth fuel depth, (ib / 32 = 0 ∨ ib / 32 = 1 ∨ ((ib / 32 = 2 ∨ ib / 32 = 3) ∧ ib % 32 ≠ 31) ∨ ib / 32 = 7) →
      Model.CborParser.item maxDepth (fuel + 1) depth (ib :: s) = .fail (.err .unknownType)) := by
  refine ⟨by simp [readUint64_eq, h], by simp [readInt64_eq, h], ?_⟩
  intro maxDepth fuel depth hm
  rcases hm with hm | hm | ⟨hm | hm, h31⟩ | hm
  · simp [Model.CborParser.item, hm, readUint64_eq, h]
  · simp [Model.CborParser.item, hm, readInt64_eq, h]
  · simp [Model.CborParser.item, hm, readString, readSize, readUint64_eq, h, h31]
  · simp [Model.CborParser.item, hm, readString, readSize, readUint64_eq, h, h31]
  · have : ib % 32 ≠ 20 ∧ ib % 32 ≠ 21 ∧ ib % 32 ≠ 22 ∧ ib % 32 ≠ 23 ∧ ib % 32 ≠ 25 ∧ ib % 32 ≠ 26 ∧ ib % 32 ≠ 27 := by omega
    simp [Model.CborParser.item, hm, this]

/-- truncation is never a value: the empty input, and a head of majors 0–5 whose argument bytes are missing, are `unexpected_eof`
    (for majors 4/5 provided the nesting limit is not hit first) -/
theorem model_truncated_head_is_eof (maxDepth fuel depth major ai : Nat) (hm : major < 6) (hai : 24 ≤ ai ∧ ai ≤ 27) (hd : depth + 1 ≤ maxDepth) :
    Model.CborParser.item maxDepth (fuel + 1) depth [] = .fail (.err .unexpectedEof) ∧
    Model.CborParser.item maxDepth (fuel + 1) depth [major * 32 + ai] = .fail (.err .unexpectedEof) := by
  refine ⟨by simp [Model.CborParser.item], ?_⟩
  have h1 : (major * 32 + ai) / 32 = major := by omega
  have h2 : (major * 32 + ai) % 32 = ai := by omega
  have hr : readArg ai [] = none := by
    unfold readArg
    rcases (by omega : ai = 24 ∨ ai = 25 ∨ ai = 26 ∨ ai = 27) with e | e | e | e <;> simp [e]
  have h28 : ¬ 28 ≤ ai := by omega
  have h31 : ¬ ai = 31 := by omega
  have hdd : ¬ depth + 1 > maxDepth := by omega
  generalize major * 32 + ai = ib at h1 h2
  rcases (by omega : major = 0 ∨ major = 1 ∨ major = 2 ∨ major = 3 ∨ major = 4 ∨ major = 5) with e | e | e | e | e | e <;> rw [e] at h1 <;>
    simp [Model.CborParser.item, h1, h2, readString, readSize, readUint64_eq, readInt64_eq, hr, h28, h31, hdd]

/-- a break (0xff) where an item is expected — at the root, as a definite array element, as a map value — is `unknown_type`; it ends an
    indefinite array or map only at an element / key position -/
theorem model_break_outside_indefinite_is_error (maxDepth fuel depth : Nat) (s : Bytes) :
    Model.CborParser.item maxDepth (fuel + 1) depth (0xff :: s) = .fail (.err .unknownType) ∧
    Model.CborParser.itemsIndef maxDepth (fuel + 1) depth (0xff :: s) = .ok [] s ∧
    Model.CborParser.membersIndef maxDepth (fuel + 1) depth (0xff :: s) = .ok [] s := by
  simp [Model.CborParser.item, Model.CborParser.itemsIndef, Model.CborParser.membersIndef]

/-- the model's error classes carry the numbers of `enum class cbor_errc` as extracted from cbor_error.hpp -/
theorem model_error_codes (e : Err) : (e.name, e.code) ∈ JV.Extracted.cborErrc := by
  cases e <;> decide

/-! non-vacuity: kernel-evaluated runs of the model next to the reference -/
example : Model.CborParser.decode 1024 [0x83, 0x01, 0x20, 0xf6] = .ok (.arr [.uint 1, .nint (-1), .null]) [] := by rfl
example : toBV textKey (.arr [.uint 1, .nint (-1), .null]) = some (.arr [.int 1 "", .int (-1) "", .null]) := by rfl
example : Model.CborParser.decode 1024 [0x9f, 0x01, 0xff] = .ok (.arr [.uint 1]) [] := by rfl
example : Model.CborParser.decode 1024 [0xbf, 0x61, 0x61, 0x5f, 0x41, 0x01, 0xff, 0xff] = .ok (.map [(.str [0x61], .bytes [1])]) [] := by rfl
example : Model.CborParser.decode 1024 [0xff] = .fail (.err .unknownType) := by rfl
example : Model.CborParser.decode 1024 [0x5f, 0x61, 0x61, 0xff] = .fail (.err .illegalChunkedString) := by rfl
example : Model.CborParser.decode 1024 [0x61, 0xff] = .fail (.err .invalidUtf8TextString) := by rfl
example : Model.CborParser.decode 1024 [0x7f, 0x61, 0xc3, 0x61, 0xa9, 0xff] = .fail (.err .invalidUtf8TextString) := by rfl   -- é cut across chunks
example : Spec.Cbor.decode [0x7f, 0x61, 0xc3, 0x61, 0xa9, 0xff] = .illformed := by rfl
example : Model.CborParser.decode 1024 [0x3b, 0x80, 0, 0, 0, 0, 0, 0, 0] = .fail (.err .numberTooLarge) := by rfl
example : Model.CborParser.decode 1024 [0x3b, 0x7f, 0xff, 0xff, 0xff, 0xff, 0xff, 0xff, 0xff] = .ok (.nint (-9223372036854775808)) [] := by rfl
example : Model.CborParser.decode 1024 [0x1c] = .fail (.err .unknownType) := by rfl
example : Model.CborParser.decode 1024 [0x19, 0x01] = .fail (.err .unexpectedEof) := by rfl
example : Model.CborParser.decode 2 [0x81, 0x81, 0x81, 0x00] = .fail (.err .maxNestingDepthExceeded) := by rfl
example : Model.CborParser.decode 1024 [0xc1, 0x00] = .fail .skip := by rfl
example : Model.CborParser.decode 1024 [0xa1, 0x01, 0x02] = .ok (.map [(.uint 1, .uint 2)]) [] := by rfl
example : toBV textKey (.map [(.uint 1, .uint 2)]) = none ∧ Spec.Cbor.decode [0xa1, 0x01, 0x02] = .unjudged := by constructor <;> rfl
example : toBV renderKey (.map [(.bool true, .uint 2)]) = some (.map [([116, 114, 117, 101], .int 2 "")]) := by rfl   -- the adaptor renders the key `true`

end parser_model

end JV.Props.C07
