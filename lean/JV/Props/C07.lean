import JV.Spec.Cbor
namespace JV.Props.C07
theorem placeholder : True := trivial
end JV.Props.C07
