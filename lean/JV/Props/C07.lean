/-
  C07 — binary decoders implement their specifications.

  The real decoders (cbor_parser.hpp, msgpack_parser.hpp, ubjson_parser.hpp, bson_parser.hpp) are not
  modelled; on every run their outcome (value / error) is compared with reference decoders written in
  Lean from the specifications (JV.Spec.Cbor: RFC 8949; JV.Spec.BinFormats: MessagePack, UBJSON draft 12,
  BSON 1.1), executed by the driver on inputs produced by independent reference encoders in every legal
  width and form, their mutations, every strict prefix, and every 1–2 (thorough: sampled 3) byte string.

  Proved here: facts about the CBOR reference that the property names — every integer the format can
  express is read back exactly from the head the encoder model writes (all five widths, both majors),
  reserved additional-information values are ill-formed for every major type and continuation, a break
  outside an indefinite item is ill-formed, a head cut short is ill-formed.
-/
import JV.Spec.Cbor
import JV.Spec.BinFormats
import JV.Model.Cbor
namespace JV.Props.C07
open JV Spec.Cbor Model.Cbor

/-- the argument of a head written by the encoder is read back exactly, for every width the ladder picks -/
theorem head_roundtrip (major n : Nat) (hm : major < 8) (hn : n < 2 ^ 64) (rest : Bytes) :
    ∃ ib tail, writeHead major n ++ rest = ib :: tail ∧ ib / 32 = major ∧ ib % 32 < 28 ∧ readArg (ib % 32) tail = some (n, rest) := by
  unfold writeHead
  by_cases h1 : n ≤ 0x17
  · refine ⟨major * 32 + n, rest, by simp [h1], by omega, by omega, ?_⟩
    have : (major * 32 + n) % 32 = n := by omega
    simp [readArg, this]; omega
  · by_cases h2 : n ≤ 0xff
    · refine ⟨major * 32 + 0x18, n :: rest, by simp [h1, h2], by omega, by omega, ?_⟩
      have : (major * 32 + 0x18) % 32 = 24 := by omega
      simp [readArg, this, beVal]
    · by_cases h3 : n ≤ 0xffff
      · refine ⟨major * 32 + 0x19, beBytes 2 n ++ rest, by simp [h1, h2, h3], by omega, by omega, ?_⟩
        have : (major * 32 + 0x19) % 32 = 25 := by omega
        simp only [readArg, this, beBytes]
        simp [beVal]
        omega
      · by_cases h4 : n ≤ 0xffffffff
        · refine ⟨major * 32 + 0x1a, beBytes 4 n ++ rest, by simp [h1, h2, h3, h4], by omega, by omega, ?_⟩
          have : (major * 32 + 0x1a) % 32 = 26 := by omega
          simp only [readArg, this, beBytes]
          simp [beVal]
          omega
        · refine ⟨major * 32 + 0x1b, beBytes 8 n ++ rest, by simp [h1, h2, h3, h4], by omega, by omega, ?_⟩
          have : (major * 32 + 0x1b) % 32 = 27 := by omega
          simp only [readArg, this, beBytes]
          simp [beVal]
          omega

/-- every int64 written by the encoder model decodes to exactly that integer (both majors, all widths) -/
theorem int_roundtrip (v : Int) (hlo : -(2 ^ 63 : Int) ≤ v) (hhi : v < 2 ^ 63) :
    decode (writeInt v) = .ok (.int v "") [] := by
  unfold writeInt
  by_cases hv : v ≥ 0
  · simp only [hv, if_true]
    obtain ⟨ib, tail, he, hmaj, hai, hr⟩ := head_roundtrip 0 v.toNat (by omega) (by omega) []
    simp only [List.append_nil] at he
    rw [he]
    have h7 : ¬ ib / 32 = 7 := by omega
    have h28 : ¬ (ib % 32 ≥ 28 ∧ ib % 32 ≤ 30) := by omega
    have h31 : ¬ ib % 32 = 31 := by omega
    have e : ((v.toNat : Nat) : Int) = v := Int.toNat_of_nonneg hv
    simp [decode, item, h7, h28, h31, hr, hmaj, e]
  · simp only [hv, if_false]
    obtain ⟨ib, tail, he, hmaj, hai, hr⟩ := head_roundtrip 1 (-1 - v).toNat (by omega) (by omega) []
    simp only [List.append_nil] at he
    rw [he]
    have h7 : ¬ ib / 32 = 7 := by omega
    have h0 : ¬ ib / 32 = 0 := by omega
    have h28 : ¬ (ib % 32 ≥ 28 ∧ ib % 32 ≤ 30) := by omega
    have h31 : ¬ ib % 32 = 31 := by omega
    have hsmall : ¬ ((-1 - v).toNat ≥ 2 ^ 63) := by omega
    have e : (((-1 - v).toNat : Nat) : Int) = -1 - v := Int.toNat_of_nonneg (by omega)
    have e2 : -1 - (-1 - v) = v := by omega
    simp [decode, item, h7, h28, h31, h0, hr, hmaj, hsmall, e, e2]

/-- reserved additional information 28–30 is ill-formed on every major type 0–6, whatever follows -/
theorem reserved_rejected (ib : Nat) (hmaj : ib / 32 ≠ 7) (hai : 28 ≤ ib % 32 ∧ ib % 32 ≤ 30) (rest : Bytes) (fuel : Nat) (tag : Option Nat) :
    item (fuel + 1) tag (ib :: rest) = .illformed := by
  simp [item, hmaj, hai]

/-- … and on major type 7 (28–30 and the stray break 31) -/
theorem reserved_simple_rejected (ai : Nat) (h : 28 ≤ ai ∧ ai ≤ 31) (rest : Bytes) (fuel : Nat) (tag : Option Nat) :
    item (fuel + 1) tag ((224 + ai) :: rest) = .illformed := by
  have h1 : (224 + ai) / 32 = 7 := by omega
  have h2 : (224 + ai) % 32 = ai := by omega
  have : ai ≠ 20 ∧ ai ≠ 21 ∧ ai ≠ 22 ∧ ai ≠ 23 ∧ ai ≠ 25 ∧ ai ≠ 26 ∧ ai ≠ 27 := by omega
  by_cases h31 : ai = 31
  · simp [item, h1, h2, h31]
  · have h28 : ai ≥ 28 := h.1
    simp [item, h1, h2, this, h31, h28]

/-- an empty input, or a head whose argument bytes are missing, is ill-formed (truncation is never a value) -/
theorem truncated_head_rejected (major ai : Nat) (hm : major < 7) (hai : 24 ≤ ai ∧ ai ≤ 27) (fuel : Nat) (tag : Option Nat) :
    item (fuel + 1) tag [major * 32 + ai] = .illformed := by
  have h1 : (major * 32 + ai) / 32 = major := by omega
  have h2 : (major * 32 + ai) % 32 = ai := by omega
  have h7 : major ≠ 7 := by omega
  have h28 : ¬ (ai ≥ 28 ∧ ai ≤ 30) := by omega
  have h31 : ai ≠ 31 := by omega
  have hr : readArg ai [] = none := by
    unfold readArg
    have : ¬ ai < 24 := by omega
    rcases (by omega : ai = 24 ∨ ai = 25 ∨ ai = 26 ∨ ai = 27) with e | e | e | e <;> simp [e]
  simp [item, h1, h2, h7, h28, h31, hr]

/-- binary16 → binary64 keeps the sign for every pattern, zeros and subnormals included (the reference the `cbor-float16` stream compares
    `decode_half`, `as<double>()` and `decode_cbor<double>` with) -/
theorem half_sign_symmetric (h : Nat) (hh : h < 32768) : f16ToF64 (h + 32768) = f16ToF64 h + 2 ^ 63 := by
  have h1 : (h + 32768) / 32768 = 1 := by omega
  have h2 : h / 32768 = 0 := by omega
  have h3 : (h + 32768) / 1024 % 32 = h / 1024 % 32 := by omega
  have h4 : (h + 32768) % 1024 = h % 1024 := by omega
  unfold f16ToF64
  simp only [h1, h2, h3, h4]
  split
  · omega
  · split
    · split <;> omega
    · omega

/-- normal halves: the exponent is re-biased by 1008 and the ten fraction bits move to the top of the 52 -/
theorem half_normal (s e m : Nat) (hs : s < 2) (he : 0 < e ∧ e < 31) (hm : m < 1024) :
    f16ToF64 (s * 32768 + e * 1024 + m) = s * 2 ^ 63 + (e + 1008) * 2 ^ 52 + m * 2 ^ 42 := by
  have h1 : (s * 32768 + e * 1024 + m) / 32768 = s := by omega
  have h2 : (s * 32768 + e * 1024 + m) / 1024 % 32 = e := by omega
  have h3 : (s * 32768 + e * 1024 + m) % 1024 = m := by omega
  unfold f16ToF64
  simp only [h1, h2, h3]
  have : e ≠ 31 := by omega
  have : e ≠ 0 := by omega
  simp [*]

example : f16ToF64 0x8001 = 0xbe70000000000000 := by decide
example : f16ToF64 0x8000 = 0x8000000000000000 := by decide
example : f16ToF64 0x03ff = 0x3f0ff80000000000 := by decide

/-! ### kernel-evaluated instances (non-vacuity; formats other than CBOR) -/
example : decode [0x83, 0x01, 0x20, 0xf6] = .ok (.arr [.int 1 "", .int (-1) "", .null]) [] := by rfl
example : decode [0x9f, 0x01, 0xff] = .ok (.arr [.int 1 ""]) [] := by rfl
example : decode [0xff] = .illformed := by rfl
example : decode [0x5f, 0x61, 0x61, 0xff] = .illformed := by rfl                    -- text chunk inside a byte string
example : decode [0x61, 0xff] = .illformed := by rfl                                -- invalid UTF-8
example : Spec.Msgpack.decode [0x92, 0xcc, 0xff, 0xd0, 0x80] = .ok (.arr [.int 255 "", .int (-128) ""]) [] := by rfl
example : Spec.Msgpack.decode [0xc1] = .illformed := by rfl
example : Spec.Bson.decode [0x0c, 0, 0, 0, 0x10, 0x61, 0, 1, 0, 0, 0, 0] = .ok (.map [([0x61], .int 1 "")]) [] := by rfl
example : Spec.Bson.decode [0x0d, 0, 0, 0, 0x10, 0x61, 0, 1, 0, 0, 0, 0] = .illformed := by rfl   -- size mismatch

end JV.Props.C07
