/-
  C12 — JSONPath queries select exactly the addressed nodes.

  Model: `JV.Model.JsonPath` (selector classes of jsonpath_selector.hpp, option handling of path_expression::evaluate,
  json_replace of json_query.hpp). Tie: generated (expression, document, options) triples evaluated by the real library and by
  the model, node list against node list; all result forms cross-checked in the harness.

  Theorems, for every document with unique object keys and every expression of the modelled grammar:
    * `path_addresses_value` — each returned normalized path, resolved against the document, yields exactly the value
      returned with it;
    * `slice_is_rfc9535`, `slice_in_bounds`, `slice_ascending`, `slice_descending` — the start/stop/step arithmetic selects
      exactly the indices of the RFC 9535 (Python) slice, each inside the array, none twice, in step order — for all
      integers, including negative and oversized bounds;
    * `sort_is_sorted_permutation`, `nodups_*`, `sort_nodups_*` — the options are the sorted / de-duplicated (first
      occurrence) versions of the plain result;
    * `replace_touches_nothing_else`, `replace_assigns_selected` — json_replace leaves every node outside the selected
      subtrees as it was and every outermost selected node holds the new value.
-/
import JV.Proofs.JsonPath
import JV.Proofs.JsonPathSlice
import JV.Proofs.JsonPathOpts
import JV.Proofs.JsonPathReplace
namespace JV
namespace Props
namespace C12
open Model.JsonPath

/-- **Paths address values.** -/
theorem path_addresses_value (root : JVal) (hu : UK root) (segs : List Seg) :
    ∀ nd ∈ query root segs, resolve root nd.1 = some nd.2 := by
  intro nd h
  exact (evalSegs_good root segs ([], root) ⟨rfl, hu⟩ nd h).1

/-- … under every option set: the options only reorder and drop nodes. -/
theorem mem_applyOpts (o : Opts) (l : List Node) : ∀ nd ∈ applyOpts o l, nd ∈ l := by
  intro nd h
  unfold applyOpts at h
  have hs : ∀ x, x ∈ sortNodes l → x ∈ l := fun x hx => (sortNodes_perm l).subset hx
  have hu : ∀ x, x ∈ uniqAdj (sortNodes l) → x ∈ l := fun x hx => hs x ((uniqAdj_sublist _).subset hx)
  split at h
  · rw [List.mem_reverse] at h
    split at h
    · exact hu nd h
    · exact hs nd h
  · split at h
    · split at h
      · exact hu nd h
      · exact hs nd h
    · split at h
      · exact (nodups_sublist l []).subset h
      · exact h

theorem path_addresses_value_opts (root : JVal) (hu : UK root) (segs : List Seg) (o : Opts) :
    ∀ nd ∈ applyOpts o (query root segs), resolve root nd.1 = some nd.2 :=
  fun nd h => path_addresses_value root hu segs nd (mem_applyOpts o _ nd h)

/-! ### slices -/

theorem slice_is_rfc9535 (s : Slice) (n x : Nat) :
    x ∈ sliceIdx s n ↔ Spec.Rfc9535.Selected s.start s.stop s.step n (x : Int) := sliceIdx_spec s n x

theorem slice_in_bounds (s : Slice) (n : Nat) : ∀ x ∈ sliceIdx s n, x < n := sliceIdx_lt s n

theorem slice_ascending (s : Slice) (n : Nat) (h : s.step > 0) : (sliceIdx s n).Pairwise (· < ·) := sliceIdx_ascending s n h

theorem slice_descending (s : Slice) (n : Nat) (h : s.step < 0) : (sliceIdx s n).Pairwise (· > ·) := sliceIdx_descending s n h

/-! ### result options -/

theorem sort_is_sorted_permutation (l : List Node) :
    (applyOpts { nodups := false, sort := true, desc := false } l).Perm l ∧
      (applyOpts { nodups := false, sort := true, desc := false } l).Pairwise (fun a b => pathLe a.1 b.1 = true) := by
  simp only [applyOpts, Bool.false_eq_true, if_false, if_true]
  exact ⟨sortNodes_perm l, sortNodes_sorted l⟩

theorem sort_descending_is_reverse_sorted (l : List Node) :
    (applyOpts { nodups := false, sort := false, desc := true } l).Perm l ∧
      (applyOpts { nodups := false, sort := false, desc := true } l).Pairwise (fun a b => pathLe b.1 a.1 = true) := by
  simp only [applyOpts, Bool.false_eq_true, if_false, if_true]
  exact ⟨(List.reverse_perm _).trans (sortNodes_perm l), List.pairwise_reverse.mpr (sortNodes_sorted l)⟩

theorem nodups_is_first_occurrences (l : List Node) :
    let r := applyOpts { nodups := true, sort := false, desc := false } l
    r.Sublist l ∧ (r.map (·.1)).Nodup ∧ (∀ p ∈ l.map (·.1), p ∈ r.map (·.1)) ∧
      (∀ nd ∈ r, ∃ l1 l2, l = l1 ++ nd :: l2 ∧ nd.1 ∉ l1.map (·.1)) := by
  simp only [applyOpts, Bool.false_eq_true, if_false, if_true]
  exact ⟨nodups_sublist l [], nodups_paths_nodup l [], fun p hp => nodups_keeps_paths l [] p hp (by simp),
    fun nd h => nodups_first l [] nd h⟩

theorem sort_nodups_is_sorted_set (l : List Node) :
    let r := applyOpts { nodups := true, sort := true, desc := false } l
    r.Pairwise (fun a b => pathLe a.1 b.1 = true) ∧ (r.map (·.1)).Nodup ∧ (∀ p ∈ l.map (·.1), p ∈ r.map (·.1)) ∧ (∀ nd ∈ r, nd ∈ l) := by
  simp only [applyOpts, Bool.false_eq_true, if_false, if_true]
  refine ⟨(sortNodes_sorted l).sublist (uniqAdj_sublist _), uniqAdj_nodup _ (sortNodes_sorted l), ?_, ?_⟩
  · intro p hp
    apply uniqAdj_keeps_paths
    obtain ⟨nd, hnd, e⟩ := List.mem_map.mp hp
    exact List.mem_map.mpr ⟨nd, (sortNodes_perm l).mem_iff.mpr hnd, e⟩
  · intro nd h
    exact (sortNodes_perm l).subset ((uniqAdj_sublist _).subset h)

/-! ### json_replace -/

/-- the paths json_replace assigns to, in assignment order -/
def replacePaths (root : JVal) (segs : List Seg) : List Path :=
  (applyOpts { nodups := true, sort := false, desc := true } (query root segs)).map (·.1)

theorem replaceAll_eq (root : JVal) (segs : List Seg) (nv : JVal) :
    replaceAll root segs nv = assignAll nv root (replacePaths root segs) := by
  simp only [replaceAll, assignAll, replacePaths, List.foldl_map]

theorem mem_replacePaths {root : JVal} {segs : List Seg} {p : Path} :
    p ∈ replacePaths root segs ↔ p ∈ (query root segs).map (·.1) := by
  simp only [replacePaths, applyOpts, Bool.false_eq_true, if_false, if_true, List.map_reverse, List.mem_reverse]
  constructor
  · intro h
    obtain ⟨nd, hnd, e⟩ := List.mem_map.mp h
    exact List.mem_map.mpr ⟨nd, (sortNodes_perm _).subset ((uniqAdj_sublist _).subset hnd), e⟩
  · intro h
    apply uniqAdj_keeps_paths
    obtain ⟨nd, hnd, e⟩ := List.mem_map.mp h
    exact List.mem_map.mpr ⟨nd, (sortNodes_perm _).mem_iff.mpr hnd, e⟩

/-- **Nothing else changes.** A node whose path diverges from every selected path is exactly as it was. -/
theorem replace_touches_nothing_else (root : JVal) (segs : List Seg) (nv : JVal) (q : Path)
    (h : ∀ nd ∈ query root segs, Diverge nd.1 q) :
    resolve (replaceAll root segs nv) q = resolve root q := by
  rw [replaceAll_eq]
  apply assignAll_diverge
  intro p hp
  obtain ⟨nd, hnd, e⟩ := List.mem_map.mp (mem_replacePaths.mp hp)
  exact e ▸ h nd hnd

theorem replacePaths_strictly_descending (root : JVal) (segs : List Seg) :
    (replacePaths root segs).Pairwise (fun a b => pathLt b a = true) := by
  simp only [replacePaths, applyOpts, Bool.false_eq_true, if_false, if_true, List.map_reverse]
  rw [List.pairwise_reverse]
  have hs := sortNodes_sorted (query root segs)
  have h1 : ((uniqAdj (sortNodes (query root segs))).map (·.1)).Pairwise (fun a b => pathLe a b = true) :=
    List.pairwise_map.mpr (hs.sublist (uniqAdj_sublist _))
  have h2 : ((uniqAdj (sortNodes (query root segs))).map (·.1)).Pairwise (· ≠ ·) := uniqAdj_nodup _ hs
  refine (h1.and h2).imp ?_
  intro a b ⟨hle, hne⟩
  rcases pathLt_trichotomy a b with h | h | h
  · exact h
  · exact absurd h hne
  · simp [pathLe, h] at hle

/-- **Every selected node is assigned.** A selected node with no selected proper ancestor holds the new value afterwards
    (a selected node below another selected node is replaced together with that ancestor). -/
theorem replace_assigns_selected (root : JVal) (hu : UK root) (segs : List Seg) (nv : JVal) (nd : Node)
    (hnd : nd ∈ query root segs)
    (houter : ∀ nd' ∈ query root segs, IsPrefix nd'.1 nd.1 → nd'.1 = nd.1) :
    resolve (replaceAll root segs nv) nd.1 = some nv := by
  rw [replaceAll_eq]
  have hp : nd.1 ∈ replacePaths root segs := mem_replacePaths.mpr (List.mem_map.mpr ⟨nd, hnd, rfl⟩)
  obtain ⟨pre, post, e⟩ := List.append_of_mem hp
  have hdesc := replacePaths_strictly_descending root segs
  rw [e] at hdesc ⊢
  have hres := path_addresses_value root hu segs nd hnd
  rw [List.pairwise_append] at hdesc
  obtain ⟨_, hpost, hcross⟩ := hdesc
  apply assignAll_hits nv nd.1 pre post root nd.2 hres
  · intro q hq
    exact not_prefix_of_lt (hcross q hq nd.1 (by simp))
  · intro q hq
    have hlt : pathLt q nd.1 = true := (List.pairwise_cons.mp hpost).1 q hq
    rcases diverge_or_prefix_of_lt hlt with h | h
    · have hq' : q ∈ replacePaths root segs := by rw [e]; simp [hq]
      obtain ⟨nd', hnd', e'⟩ := List.mem_map.mp (mem_replacePaths.mp hq')
      have := houter nd' hnd' (e' ▸ h)
      rw [e'] at this
      rw [this, pathLt_irrefl] at hlt
      exact absurd hlt (by simp)
    · exact h

/-! ### non-vacuity and executable sanity -/

def doc : JVal := .obj [([97], .arr [.int 1, .int 2, .int 3, .int 4]), ([98], .obj [([120], .int 5)])]

example : UK doc := by simp [doc, UK, UKList, UKMembers, Assoc.keys]
example : (query doc [.child [.name [97]], .child [.slice { start := some 1, stop := none, step := 2 }]]).map (·.2) = [.int 2, .int 4] := by
  rfl
example : sliceIdx { start := none, stop := none, step := -2 } 5 = [4, 2, 0] := by decide
example : sliceIdx { start := some (-100), stop := some 100, step := 9223372036854775807 } 3 = [0] := by decide

end C12
end Props
end JV
