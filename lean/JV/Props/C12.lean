import JV.Model.JsonPath
namespace JV.Props.C12
theorem placeholder : True := trivial
end JV.Props.C12
