/-
  C04 — numbers survive conversion between text and binary exactly.

  Model : JV.Model.Number (dec_to_integer, from_integer, the parser's integer classification),
          JV.Model.BigInt (basic_bigint's limb loops with 64-bit wrap-around: += / -= / compare / reduce,
          DDproduct, *= word, *= bigint (1×1, word×many, schoolbook columns), <<=, >>=, += word, the string
          constructor (detail::to_bigint), from_bytes_be, divide's num<denom / 1×1 / half-word exits,
          write_bytes_be, write_string's 19-digit chunk loop). Every one of these is run against the real member
          function word for word in the correspondence stream `bigint-limbs` (operands and results as sign + hex words).
  Proved: integer parse/print exactness incl. both 64-bit boundaries; exactness of bigint addition, subtraction,
          reduce, compare, also with signs (on reduced operands; results reduced); DDproduct = the 128-bit product (high word ≤ 2^64-2); *= word and *= bigint exact (all exits);
          <<= is ·2^k, >>= is ⌊|·|/2^k⌋; decimal text → bigint exact and total on digit strings, none otherwise;
          from_bytes_be / write_bytes_be are the big-endian base-256 value, and round-trip; divide by a one-word
          denominator exact on the modelled exits; write_string ∘ string constructor = identity on the integer
          (unconditional for values of one word; for longer values conditional on divide(10^19) being exact).
  NOT proved (validated per case against exact Python arithmetic in the correspondence run): Grisu3 / snprintf
          digit generation, strtod, the general (Knuth) exit of bigint divide (normalize / DDquotient /
          subtractmul / unnormalize) and hence multi-word write_string's divisions, hex text.
-/
import JV.Proofs.Number
import JV.Proofs.BigInt
import JV.Proofs.BigIntMul
import JV.Proofs.BigIntShift
import JV.Proofs.BigIntRadix
import JV.Proofs.BigIntPrint
import JV.Proofs.BigIntSigned
namespace JV.Props.C04
open JV Model

/-- every digit string of at most 20 characters parses to exactly its value iff that value fits in
    64 bits; otherwise `result_out_of_range` — never wrapped, truncated or rounded -/
theorem decToU64_exact (s : Bytes) (hne : s ≠ []) (hd : AllDigits s) (hlen : s.length ≤ 20) :
    decToU64 s = if decVal s ≤ 2 ^ 64 - 1 then .ok (decVal s) else .error .range :=
  decToU64_digits s hne hd hlen

/-- longer digit strings are out of range (a literal without leading zeros of 21+ digits exceeds 2^64) -/
theorem decToU64_too_long (s : Bytes) (hd : AllDigits s) (hlen : s.length > 20) : decToU64 s = .error .range :=
  decToU64_long s hd hlen

/-- whatever is accepted is a non-empty all-digit string (no sign, blank, or stray character) -/
theorem decToU64_accepts_only_digits (s : Bytes) (n : Nat) (h : decToU64 s = .ok n) :
    AllDigits s ∧ s ≠ [] ∧ s.length ≤ 20 :=
  decToU64_ok_allDigits s n h

/-- every stored unsigned 64-bit integer prints as decimal digits that parse back to it -/
theorem unsigned_print_parse (n : Nat) (hn : n < 2 ^ 64) : decToU64 (fromUnsigned n) = .ok n :=
  fromUnsigned_roundtrip n hn

/-- … the printed form is the exact decimal expansion, without leading zeros -/
theorem unsigned_print_exact (n : Nat) (hn : n < 2 ^ 64) :
    AllDigits (fromUnsigned n) ∧ fromUnsigned n ≠ [] ∧ decVal (fromUnsigned n) = n ∧ ((fromUnsigned n).head? = some 48 → n = 0) :=
  fromUnsigned_digits n hn

/-- every stored signed 64-bit integer (including -2^63, which cannot be negated) prints and parses back exactly -/
theorem signed_print_parse (v : Int) (hlo : -(2 ^ 63 : Int) ≤ v) (hhi : v < 2 ^ 63) : decToI64 (fromInteger v) = .ok v :=
  fromInteger_roundtrip v hlo hhi

/-- a non-negative integer literal in the 64-bit range is stored as exactly that integer; outside it,
    with lossless_bignum, it is kept digit for digit -/
theorem parser_integer_exact (s : Bytes) (hne : s ≠ []) (hd : AllDigits s) (hlen : s.length ≤ 20) :
    classifyInteger true s = if decVal s ≤ 2 ^ 64 - 1 then .u64 (decVal s) else .bigint s := by
  have hhead : ¬ (s.head? = some 45) := by
    intro h
    cases s with
    | nil => exact hne rfl
    | cons c cs =>
      simp at h; subst h
      have := isDigit_iff.1 (hd 45 (by simp)); omega
  unfold classifyInteger
  simp only [hhead, if_false, decToU64_digits s hne hd hlen]
  by_cases hle : decVal s ≤ 2 ^ 64 - 1
  · simp [hle]
  · simp [hle]

/-- the bigint addition loop computes the sum of the magnitudes exactly (all carries, any lengths) -/
theorem bigint_add_exact (x y : List Nat) (hx : BigInt.Words x) (hy : BigInt.Words y) :
    BigInt.val (BigInt.addMag x y) = BigInt.val x + BigInt.val y :=
  (BigInt.addMag_val x y hx hy).1

/-- the bigint subtraction loop computes the difference exactly whenever |this| ≥ |y| (all borrows,
    including a borrow into a zero word) -/
theorem bigint_sub_exact (x y : List Nat) (hx : BigInt.Words x) (hy : BigInt.Words y)
    (hl : y.length ≤ x.length) (hge : BigInt.val y ≤ BigInt.val x) :
    BigInt.val (BigInt.subLoop x y 0) = BigInt.val x - BigInt.val y :=
  (BigInt.subLoop_val x y hx hy hl hge).1

/-- `reduce()` does not change the value -/
theorem bigint_reduce_exact (xs : List Nat) : BigInt.val (BigInt.stripHigh xs) = BigInt.val xs :=
  BigInt.stripHigh_val xs

/-- `compare` (by length, then from the top word down; signs first) orders reduced values as integers -/
theorem bigint_compare_exact (a b : BigInt.Big) (ha : BigInt.Normal a.mag) (hb : BigInt.Normal b.mag) :
    (BigInt.compare a b > 0 ↔ BigInt.toInt a > BigInt.toInt b) ∧ (BigInt.compare a b < 0 ↔ BigInt.toInt a < BigInt.toInt b) :=
  BigInt.compare_toInt a b ha hb

/-- `operator+=` with signs (equal signs: add magnitudes; else subtract the smaller magnitude from the larger,
    swapping through `-(y - *this)`) is integer addition, and the result is reduced -/
theorem bigint_add_signed (a b : BigInt.Big) (ha : BigInt.Normal a.mag) (hb : BigInt.Normal b.mag) :
    BigInt.toInt (BigInt.add 4 a b) = BigInt.toInt a + BigInt.toInt b ∧ BigInt.Normal (BigInt.add 4 a b).mag :=
  BigInt.add_toInt a b ha hb

/-- `operator-=` with signs is integer subtraction, and the result is reduced -/
theorem bigint_sub_signed (a b : BigInt.Big) (ha : BigInt.Normal a.mag) (hb : BigInt.Normal b.mag) :
    BigInt.toInt (BigInt.sub 4 a b) = BigInt.toInt a - BigInt.toInt b ∧ BigInt.Normal (BigInt.sub 4 a b).mag :=
  BigInt.sub_toInt a b ha hb

/-- `DDproduct` (32-bit half-word products with two carry tests) is the exact 128-bit product, and its
    high word never exceeds 2^64 - 2 — the fact the multiplication loops silently rely on -/
theorem bigint_ddproduct_exact (a b : Nat) (ha : a < BigInt.B) (hb : b < BigInt.B) :
    (BigInt.ddproduct a b).2 + BigInt.B * (BigInt.ddproduct a b).1 = a * b ∧
      (BigInt.ddproduct a b).2 < BigInt.B ∧ (BigInt.ddproduct a b).1 + 2 ≤ BigInt.B :=
  BigInt.ddproduct_spec a b ha hb

/-- `operator*=(word)`: the carry loop over DDproduct multiplies exactly -/
theorem bigint_mulWord_exact (x : List Nat) (w : Nat) (hx : BigInt.Words x) (hw : w < BigInt.B) :
    BigInt.val (BigInt.mulWord x w) = BigInt.val x * w :=
  BigInt.mulWord_val x w hx hw

/-- `operator*=(basic_bigint)`: every exit (1×1 with overflow test, word × many, schoolbook columns with the
    three-word accumulator) gives the exact product. `x.length < 2^64`: the column carry is a 64-bit counter. -/
theorem bigint_mul_exact (x y : List Nat) (hx : BigInt.Words x) (hy : BigInt.Words y) (hlen : x.length < BigInt.B) :
    BigInt.val (BigInt.mulMag x y) = BigInt.val x * BigInt.val y :=
  BigInt.mulMag_val x y hx hy hlen

/-- … with signs: the product of the integers -/
theorem bigint_mul_signed (a b : BigInt.Big) (ha : BigInt.Words a.mag) (hb : BigInt.Words b.mag) (hlen : a.mag.length < BigInt.B) :
    BigInt.toInt (BigInt.mul a b) = BigInt.toInt a * BigInt.toInt b :=
  BigInt.mul_toInt a b ha hb hlen

/-- `operator<<=`: whole-word move, then per-word `(w << k) | (prev >> (64-k))`, is multiplication by 2^k -/
theorem bigint_shl_exact (x : List Nat) (k : Nat) (hx : BigInt.Words x) :
    BigInt.val (BigInt.shlRaw x k) = BigInt.val x * 2 ^ k :=
  BigInt.shlRaw_val x k hx

theorem bigint_shl_signed (a : BigInt.Big) (k : Nat) (ha : BigInt.Words a.mag) :
    BigInt.toInt (BigInt.shl a k) = BigInt.toInt a * 2 ^ k :=
  BigInt.shl_toInt a k ha

/-- `operator>>=` is floor division of the magnitude by 2^k (a negative value is truncated towards zero, not
    floored), whichever exit is taken; it never turns the sign flag on -/
theorem bigint_shr_exact (a : BigInt.Big) (k : Nat) (ha : BigInt.Words a.mag) :
    BigInt.val (BigInt.shr a k).mag = BigInt.val a.mag / 2 ^ k ∧ ((BigInt.shr a k).neg = true → a.neg = true) :=
  BigInt.shr_val a k ha

/-- the string constructor (`detail::to_bigint`: `v *= 10u; v += digit` per character): every non-empty digit
    string becomes exactly its decimal value; the sign flag is set only on request -/
theorem bigint_parse_exact (neg : Bool) (s : Bytes) (hne : s ≠ []) (hd : AllDigits s) :
    ∃ b, BigInt.ofDecimalDigits neg s = some b ∧ BigInt.val b.mag = decVal s ∧ BigInt.Words b.mag ∧ (b.neg = true → neg = true) ∧
      (b.neg = neg ∨ decVal s = 0) :=
  BigInt.ofDecimalDigits_ok neg s hne hd

/-- … and anything else is rejected (no partial parse, no skipped character) -/
theorem bigint_parse_rejects (neg : Bool) (s : Bytes) (h : ¬ AllDigits s) : BigInt.ofDecimalDigits neg s = none :=
  BigInt.ofDecimalDigits_bad neg s h

/-- `from_bytes_be` (`v *= 256; v += byte`): the magnitude is the big-endian value of the bytes -/
theorem bigint_from_bytes_exact (sg : Int) (s : List Nat) (h : ∀ b ∈ s, b < 256) :
    BigInt.val (BigInt.fromBytesBE sg s).mag = BigInt.beVal s ∧ BigInt.Words (BigInt.fromBytesBE sg s).mag ∧
      (BigInt.fromBytesBE sg s).neg = decide (sg < 0) :=
  BigInt.fromBytesBE_val sg s h

/-- `divide` by a one-word denominator on its `num < denom`, 1×1 and half-word-loop exits (the Knuth exit is
    not modelled: `divWord = none` there): `num = quot * d + rem`, and `rem < d` on the dividing exits -/
theorem bigint_divWord_exact (x : List Nat) (d : Nat) (hx : BigInt.Words x) (hd : 0 < d) (q r : List Nat)
    (h : BigInt.divWord x d = some (q, r)) :
    BigInt.val x = BigInt.val q * d + BigInt.val r ∧ BigInt.Words q ∧
      (¬ BigInt.cmpMag x [d] < 0 → BigInt.val r < d ∧ r.headD 0 = BigInt.val r) :=
  BigInt.divWord_spec x d hx hd q r h

/-- `write_bytes_be` (repeated `divide` by 256): the bytes are the big-endian base-256 digits of the magnitude -/
theorem bigint_to_bytes_exact (a : BigInt.Big) (ha : BigInt.Words a.mag) :
    BigInt.beVal (BigInt.toBytesBE a).2 = BigInt.val a.mag ∧ ∀ b ∈ (BigInt.toBytesBE a).2, b < 256 :=
  BigInt.toBytesBE_val a ha

/-- bytes written by `write_bytes_be` and read back by `from_bytes_be` give the same integer -/
theorem bigint_bytes_roundtrip (a : BigInt.Big) (ha : BigInt.Words a.mag) :
    BigInt.toInt (BigInt.fromBytesBE (BigInt.toBytesBE a).1 (BigInt.toBytesBE a).2) = BigInt.toInt a :=
  BigInt.bytes_roundtrip a ha

/-- `write_string` (19-digit chunks, zero-padded except the last, sign, reverse) followed by the string
    constructor gives the same integer back — for every bigint, PROVIDED the `divide(10^19)` it calls is exact
    on the values it meets (`Div19Exact P div19`, `P` any property of word lists kept by the quotient). The
    general (Knuth) `divide` exit is not modelled: for it this premise is an observation of the correspondence run. -/
theorem bigint_print_parse (P : List Nat → Prop) (div19 : List Nat → List Nat × Nat) (hdiv : BigInt.Div19Exact P div19)
    (a : BigInt.Big) (hP : P a.mag) (ha : BigInt.Words a.mag) :
    ∃ b, BigInt.ofDecimal (BigInt.toDecimal div19 a) = some b ∧ BigInt.toInt b = BigInt.toInt a :=
  BigInt.print_parse P div19 hdiv a hP ha

/-- … and unconditionally for every value of at most one word, where `divide(10^19)` leaves through its
    modelled `num < denom` / 1×1 exits -/
theorem bigint_print_parse_word (a : BigInt.Big) (hl : a.mag.length ≤ 1) (ha : BigInt.Words a.mag) :
    ∃ b, BigInt.ofDecimal (BigInt.toDecimal BigInt.div19Word a) = some b ∧ BigInt.toInt b = BigInt.toInt a :=
  BigInt.print_parse_word a hl ha

/-! ### non-vacuity -/
example : decToU64 [49, 56, 52, 52, 54, 55, 52, 52, 48, 55, 51, 55, 48, 57, 53, 53, 49, 54, 49, 53] = .ok (2 ^ 64 - 1) := by rfl
example : decToU64 [49, 56, 52, 52, 54, 55, 52, 52, 48, 55, 51, 55, 48, 57, 53, 53, 49, 54, 49, 54] = .error .range := by rfl
example : decToI64 (fromInteger (-(2 ^ 63))) = .ok (-(2 ^ 63)) := by rfl
example : BigInt.subLoop [0, 0, 1] [1, 1] 0 = [BigInt.B - 1, BigInt.B - 2, 0] := by decide

example : BigInt.ddproduct (BigInt.B - 1) (BigInt.B - 1) = (BigInt.B - 2, 1) := by decide
example : BigInt.mulWord [BigInt.B - 1, BigInt.B - 1] (BigInt.B - 1) = [1, BigInt.B - 1, BigInt.B - 2] := by decide
example : BigInt.mulMag [BigInt.B - 1, BigInt.B - 1] [BigInt.B - 1, BigInt.B - 1] = [1, 0, BigInt.B - 2, BigInt.B - 1] := by decide
example : BigInt.shlRaw [BigInt.B - 1, 1] 65 = [0, BigInt.B - 2, 3, 0] := by decide
example : BigInt.shr { neg := true, mag := [BigInt.B - 1, 1] } 1 = { neg := true, mag := [BigInt.B - 1] } := by decide
-- every word shifted out: size 0 but the sign flag survives (no `reduce()` on that exit)
example : BigInt.shr { neg := true, mag := [5] } 64 = { neg := true, mag := [] } := by decide
-- "18446744073709551616" = 2^64
example : BigInt.ofDecimal [49, 56, 52, 52, 54, 55, 52, 52, 48, 55, 51, 55, 48, 57, 53, 53, 49, 54, 49, 54] = some { neg := false, mag := [0, 1] } := by decide
example : BigInt.ofDecimal [45, 48, 48] = some { neg := false, mag := [] } := by decide
example : BigInt.ofDecimal [45] = none := by decide
example : BigInt.toBytesBE { neg := true, mag := [0, 1] } = (-1, [1, 0, 0, 0, 0, 0, 0, 0, 0]) := by decide
example : BigInt.fromBytesBE (-1) [1, 0, 0, 0, 0, 0, 0, 0, 0] = { neg := true, mag := [0, 1] } := by decide
example : BigInt.divWord [6, 7] 3 = some ([6148914691236517207, 2], [1]) := by decide
-- -(2^64 - 1) prints as "-18446744073709551615": two chunks, the first padded to 19 digits
example : BigInt.toDecimal BigInt.div19Word { neg := true, mag := [BigInt.B - 1] } =
    [45, 49, 56, 52, 52, 54, 55, 52, 52, 48, 55, 51, 55, 48, 57, 53, 53, 49, 54, 49, 53] := by decide
example : BigInt.add 4 { neg := true, mag := [0, 1] } { neg := false, mag := [1] } = { neg := true, mag := [BigInt.B - 1] } := by decide
example : BigInt.sub 4 { neg := false, mag := [1] } { neg := false, mag := [0, 1] } = { neg := true, mag := [BigInt.B - 1] } := by decide

end JV.Props.C04
