import JV.Model.Cbor
namespace JV.Props.C06
theorem placeholder : True := trivial
end JV.Props.C06
