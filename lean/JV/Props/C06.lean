/-
  C06 — binary formats round-trip the data model.

  Proved here (CBOR, the data-model core): Model JV.Model.Cbor.encode = what `encode_cbor` writes for
  null / bool / every int64 and uint64 / doubles (incl. the "float32 when exact" shortcut) / UTF-8 text
  / byte strings / arrays / maps at any nesting — tied to the real encoder BYTE FOR BYTE by the
  `cbor-encoder-model` correspondence stream. For every such value the RFC 8949 reference decoder
  (JV.Spec.Cbor, the same one the real decoder is compared with in C07) reads the bytes back as exactly
  that value and leaves any following bytes untouched. Length and integer boundaries (23/24, 2^8,
  2^16, 2^32, 2^64) are inside the theorem, not sampled.

  Big floats (CBOR tag 5, carried by jsoncons as the text "[-]0x<hex mantissa>p[-]<hex exponent>"; JV.Model.BigFloat, tied byte for
  byte by the `cbor-bigfloat-model` stream): for every mantissa - on either side of the int64 / bignum line - and every int64 exponent,
  the text the decoder renders is read back by the encoder as the same pair (`bigfloat_text_roundtrip`), and the bytes the encoder writes
  denote that pair under RFC 8949 §3.4.4 (`bigfloat_bytes_roundtrip`). D79 (a bignum mantissa came back as garbled text) lived here.

  Proved here (MessagePack, the data-model core): Model JV.Model.Msgpack.encode = what `encode_msgpack` writes for null / bool /
  every int64 and uint64 (positive fixint, uint8/16/32/64, negative fixint, int8/16/32/64) / doubles (float32 when exact, else float64)
  / UTF-8 text (fixstr, str8/16/32) / byte strings (bin8/16/32) / arrays (fixarray, array16/32) / maps (fixmap, map16/32) at any
  nesting — tied to the real encoder BYTE FOR BYTE by the `msgpack-encoder-model` correspondence stream (every integer-width and
  length boundary up to 2^16 with both neighbours; 2^32-byte payloads are not run). For every such value with lengths below 2^32
  (the widest length field of the format) the reference MessagePack decoder (JV.Spec.Msgpack, the one the real decoder is judged
  by in C07) reads the bytes back as exactly that value and leaves any following bytes untouched (`msgpack_roundtrip`); the integer
  ladder is covered for every integer in [-2^63, 2^64) by case split (`msgpack_int_head_roundtrip`, `msgpack_int_width`).
  Not in the theorem: timestamps (ext -1), other ext types, bigint/bigdec strings (plain text in MessagePack), and what
  the real encoder does for a length >= 2^32 (it writes NO head at all - the model reproduces that, `OKm` excludes it).

  Proved here (UBJSON, the data-model core): Model JV.Model.Ubjson.encode = what `encode_ubjson` writes for null / bool / every
  int64 ('U' 'i' 'I' 'l' 'L'; an integer above 2^63-1 is refused by both) / doubles ('d' when exact, else 'D') / text ('S' + length
  as an integer item) / byte strings (the typed array `[$U#n`) / counted arrays `[#n` / counted objects `{#n` at any nesting -
  tied to the real encoder BYTE FOR BYTE (and refusal for refusal) by the `ubjson-encoder-model` stream. For every such value with
  lengths below 2^63 the reference UBJSON decoder (JV.Spec.Ubjson, the one used in C07) reads the bytes back as the documented image
  (a byte string comes back as the array of its bytes; everything else as itself) and leaves what follows untouched
  (`ubjson_roundtrip`); integers by case split over [-2^63, 2^63) (`ubjson_int_roundtrip`), lengths over [0, 2^63)
  (`ubjson_length_roundtrip`). Not in the theorem: high-precision numbers ('H', bigint/bigdec strings), indefinite containers
  (the real encoder only writes them when driven event by event without a length).

  Proved here (BSON, the data-model core): Model JV.Model.Bson.encode = what `encode_bson` writes for a document root AND for an
  array root (bson_encoder.hpp accepts it and writes the document keyed "0", "1", …; a scalar root is refused with
  expected_bson_document by both) holding null / bool / every int64 (0x10 int32 when INT32_MIN <= v <= INT32_MAX, else 0x12 int64; an
  integer above 2^63-1 is refused by both) / doubles (0x01, the 64 bits little-endian, NaN payloads included - there is no float32
  shortcut) / text (0x02, int32 length counting the terminator, the text, 0x00; text that is not UTF-8 is refused by both) / byte
  strings (0x05, int32 length, subtype 0x80) / arrays (0x04, a document whose names are std::to_string(index)) / documents (0x03) at
  any nesting up to max_nesting_depth = 1024 (deeper is refused by both) - element names as C strings, every document's total length
  back-patched as a little-endian int32 that counts itself and the trailing 0x00 - tied to the real encoder BYTE FOR BYTE and refusal
  for refusal by the `bson-encoder-model` stream (int32/int64 boundaries with both neighbours, empty documents and arrays, arrays of
  0…13 / 99…101 / 999…1001 items, nested arrays, multi-byte UTF-8 in values and names, U+0000 inside a text value, nesting 1023…1025).
  For every value in `OKb` (root a container; names without 0x00 and in UTF-8; integers in [-2^63, 2^63); UTF-8 text; the whole
  document shorter than 2^31 bytes; depth <= 1024) the reference BSON decoder (JV.Spec.Bson, the one used in C07; its own entry point
  `decode` included, `bson_roundtrip_decode`) reads the bytes back as the documented image - everything itself, a byte string marked
  "ext", a ROOT array as the document keyed by its indices - and leaves what follows untouched (`bson_roundtrip`); `OKb` lies inside
  what the encoder accepts (`bson_domain_accepted`); int32 iff in range (`bson_int_width`); the length field (`bson_length_field`).
  Bug-faithful and outside `OKb`: an element name containing 0x00 is written as it is (visit_key copies the bytes), so the document
  written for {"a\0b": null} is not well-formed BSON (example below) - reported, not repaired here.
  Not in the theorem: datetime / decimal128 / ObjectId / regex / code (tagged values), binary subtypes other than 0x80.

  Decided per case on the real code, not proved: the other semantic tags, string packing (stringref; D26 was
  found there and repaired), typed arrays, MessagePack timestamps, UBJSON high-precision numbers, and the BSON round trip of tagged
  values under its documented mapping (see the check's streams).
-/
import JV.Proofs.CborRoundtrip
import JV.Proofs.BigFloat
import JV.Proofs.MsgpackRoundtrip
import JV.Proofs.UbjsonRoundtrip
import JV.Proofs.BsonRoundtrip
namespace JV.Props.C06
open JV Model.Cbor Spec.Cbor

/-- encode then decode is the identity on the CBOR core, for all values, whatever follows the item -/
theorem cbor_roundtrip (v : CV) (hv : OK v) (rest : Bytes) :
    ∃ fuel, item fuel none (encode v ++ rest) = .ok (toBV v) rest :=
  ⟨need v, enc_dec v rest (need v) hv (Nat.le_refl _)⟩

/-- … and more fuel never changes the answer (the reference decoder's fuel is an artefact, not a limit) -/
theorem cbor_roundtrip_any_fuel (v : CV) (hv : OK v) (rest : Bytes) (fuel : Nat) (hf : need v ≤ fuel) :
    item fuel none (encode v ++ rest) = .ok (toBV v) rest :=
  enc_dec v rest fuel hv hf

/-- the head (major type + argument) written for any length or integer below 2^64 is read back exactly:
    every width boundary is covered by the case split, none is sampled -/
theorem header_roundtrip (major n : Nat) (hm : major < 8) (hn : n < 2 ^ 64) (rest : Bytes) :
    ∃ ib tail, writeHead major n ++ rest = ib :: tail ∧ ib / 32 = major ∧ readArg (ib % 32) tail = some (n, rest) := by
  obtain ⟨ib, tail, h1, h2, _, h4⟩ := head_read major n hm hn rest
  exact ⟨ib, tail, h1, h2, h4⟩

/-- the float32 shortcut (`(float)val`, `(double)valf == val`) loses nothing: every double outside the
    binary32-subnormal exponent band satisfies the side condition of `cbor_roundtrip` -/
theorem float32_shortcut_lossless (b : Nat) (hb : b < 2 ^ 64)
    (hsub : ¬ (874 ≤ b / 2 ^ 52 % 2048 ∧ b / 2 ^ 52 % 2048 ≤ 896)) : DoubleOK b :=
  doubleOK_outside_f32_subnormals b hb hsub

/-- NaNs are never narrowed (they compare unequal to everything), so they travel as 64-bit patterns, bit for bit -/
theorem nan_not_narrowed (b : Nat) (he : b / 2 ^ 52 % 2048 = 2047) (hm : b % 2 ^ 52 ≠ 0) : narrowF32 b = none := by
  simp [narrowF32, he, hm]

/-- big floats: the decoder's text for (mantissa, exponent) is parsed back by the encoder as exactly that pair -/
theorem bigfloat_text_roundtrip (m e : Int) : Model.BigFloat.parse (Model.BigFloat.render m e) = some (m, e) :=
  Model.BigFloat.parse_render m e

/-- big floats: the bytes written for (mantissa, exponent) - integer or bignum mantissa - are read back, under RFC 8949 §3.4.4, as that
    pair, leaving what follows untouched. `hlen` says the mantissa's magnitude is shorter than 2^64 bytes (a CBOR length must fit 64 bits). -/
theorem bigfloat_bytes_roundtrip (m e : Int) (he : Model.BigFloat.fitsInt64 e = true)
    (hlen : (Model.BigFloat.beMag (if m ≥ 0 then m.toNat else (-1 - m).toNat)).length < 2 ^ 64) (rest : Bytes) :
    ∃ bytes, Model.BigFloat.encodeBigfloat m e = some bytes ∧ Model.BigFloat.decodeBigfloat (bytes ++ rest) = some ((m, e), rest) := by
  refine ⟨_, by simp [Model.BigFloat.encodeBigfloat, he]; rfl, ?_⟩
  simp only [List.cons_append, List.append_assoc, Model.BigFloat.decodeBigfloat]
  rw [Model.BigFloat.readInt_writeInt e he]
  by_cases hm : Model.BigFloat.fitsInt64 m = true
  · simp only [hm, if_true]; rw [Model.BigFloat.readMantissa_writeInt m hm]
  · have hm' : Model.BigFloat.fitsInt64 m = false := by simpa using hm
    simp only [hm', Bool.false_eq_true, if_false]; rw [Model.BigFloat.readMantissa_bignum m hlen]

/-- … and so text → bytes → pair: encoding the rendered text denotes the pair the text was rendered from -/
theorem bigfloat_render_encode_decode (m e : Int) (he : Model.BigFloat.fitsInt64 e = true)
    (hlen : (Model.BigFloat.beMag (if m ≥ 0 then m.toNat else (-1 - m).toNat)).length < 2 ^ 64) :
    ∃ bytes, Model.BigFloat.encodeText (Model.BigFloat.render m e) = some bytes ∧
             Model.BigFloat.decodeBigfloat bytes = some ((m, e), []) := by
  obtain ⟨bytes, h1, h2⟩ := bigfloat_bytes_roundtrip m e he hlen []
  exact ⟨bytes, by simp [Model.BigFloat.encodeText, bigfloat_text_roundtrip, h1], by simpa using h2⟩

/-! ### MessagePack -/

/-- the documented mapping from the data-model core to what the reference decoders deliver (no tags on the core) -/
abbrev toValue : CV → BV := toBV

/-- encode then decode is the identity on the MessagePack image of the core, for ALL values (any nesting), whatever follows the item.
    `OKm`: integers in [-2^63, 2^64), valid UTF-8 text, doubles on which the float32 shortcut is lossless
    (`float32_shortcut_lossless` gives that outside the binary32-subnormal band), every length below 2^32. -/
theorem msgpack_roundtrip (v : CV) (hv : Model.Msgpack.OKm v) (rest : Bytes) :
    ∃ fuel, Spec.Msgpack.item fuel (Model.Msgpack.encode v ++ rest) = .ok (toValue v) rest :=
  ⟨need v, Model.Msgpack.enc_dec v rest (need v) hv (Nat.le_refl _)⟩

/-- … and more fuel never changes the answer -/
theorem msgpack_roundtrip_any_fuel (v : CV) (hv : Model.Msgpack.OKm v) (rest : Bytes) (fuel : Nat) (hf : need v ≤ fuel) :
    Spec.Msgpack.item fuel (Model.Msgpack.encode v ++ rest) = .ok (toValue v) rest :=
  Model.Msgpack.enc_dec v rest fuel hv hf

/-- every integer in [-2^63, 2^64) - positive fixint, uint8/16/32/64, negative fixint, int8/16/32/64, all ten rungs of the ladder by
    case split, none sampled - is read back as itself -/
theorem msgpack_int_head_roundtrip (i : Int) (hlo : -(2 ^ 63 : Int) ≤ i) (hhi : i < 2 ^ 64) (rest : Bytes) (fuel : Nat) :
    Spec.Msgpack.item (fuel + 1) (Model.Msgpack.writeInt i ++ rest) = .ok (.int i "") rest :=
  Model.Msgpack.item_int fuel i rest hlo hhi

/-- the integer ladder never writes more than the value needs: 1, 2, 3, 5 or 9 bytes, chosen by magnitude -/
theorem msgpack_int_width (i : Int) :
    (Model.Msgpack.writeInt i).length =
      if -32 ≤ i ∧ i ≤ 127 then 1 else if -128 ≤ i ∧ i ≤ 255 then 2 else if -32768 ≤ i ∧ i ≤ 65535 then 3
      else if -2147483648 ≤ i ∧ i ≤ 4294967295 then 5 else 9 := by
  unfold Model.Msgpack.writeInt
  by_cases hv : i ≥ 0
  · simp only [hv, if_true]
    repeat' split
    all_goals simp [Model.Msgpack.length_beBytes]
    all_goals omega
  · simp only [hv, if_false]
    repeat' split
    all_goals simp [Model.Msgpack.length_beBytes]
    all_goals omega

/-- text of any length below 2^32 (fixstr / str8 / str16 / str32 chosen by the ladder) is read back exactly -/
theorem msgpack_text_roundtrip (s rest : Bytes) (hl : s.length < 2 ^ 32) (hv : Spec.Rfc8259.validUtf8 s = true) (fuel : Nat) :
    Spec.Msgpack.item (fuel + 1) (Model.Msgpack.strHead s.length ++ s ++ rest) = .ok (.str s "") rest :=
  Model.Msgpack.item_text fuel s rest hl hv

/-- byte strings of any length below 2^32 (bin8 / bin16 / bin32) are read back exactly -/
theorem msgpack_bytes_roundtrip (b rest : Bytes) (hl : b.length < 2 ^ 32) (fuel : Nat) :
    Spec.Msgpack.item (fuel + 1) (Model.Msgpack.binHead b.length ++ b ++ rest) = .ok (.bytes b "") rest :=
  Model.Msgpack.item_bytes fuel b rest hl

/-- the array and map heads announce exactly the element count that was written, for every count below 2^32 -/
theorem msgpack_container_heads (n : Nat) (hn : n < 2 ^ 32) (body : Bytes) (fuel : Nat) :
    Spec.Msgpack.item (fuel + 1) (Model.Msgpack.arrHead n ++ body) = Spec.Msgpack.wrapArr (Spec.Msgpack.items fuel n body) ∧
    Spec.Msgpack.item (fuel + 1) (Model.Msgpack.mapHead n ++ body) = Spec.Msgpack.wrapMap (Spec.Msgpack.members fuel n body) :=
  ⟨Model.Msgpack.item_arrHead fuel n body hn, Model.Msgpack.item_mapHead fuel n body hn⟩

/-- doubles: the 64-bit pattern comes back bit for bit (also through the float32 shortcut, when `DoubleOK`) -/
theorem msgpack_double_roundtrip (b : Nat) (h : DoubleOK b) (rest : Bytes) (fuel : Nat) :
    Spec.Msgpack.item (fuel + 1) (Model.Msgpack.encodeDouble b ++ rest) = .ok (.dbl b "") rest :=
  Model.Msgpack.item_double fuel b rest h

/-! ### UBJSON -/

/-- the documented UBJSON mapping: everything itself, except that a byte string (written as the typed array `[$U#n …`) comes back
    as the array of its bytes -/
abbrev toValueUbjson : CV → BV := Model.Ubjson.toBVu

/-- encode then decode is the documented mapping on the UBJSON image of the core, for ALL values (any nesting), whatever follows:
    the bytes written start with a type marker `m`, and the reference decoder, having read `m`, delivers the value and leaves `rest`.
    `OKu`: integers in [-2^63, 2^63) (UBJSON has no uint64; the real encoder refuses the rest, as the model's `representable` says),
    valid UTF-8 text, doubles on which the float32 shortcut is lossless, lengths below 2^63. -/
theorem ubjson_roundtrip (v : CV) (hv : Model.Ubjson.OKu v) (rest : Bytes) :
    ∃ fuel m r, Model.Ubjson.encode v ++ rest = m :: r ∧ Spec.Ubjson.valueOf fuel m r = .ok (toValueUbjson v) rest := by
  obtain ⟨m, r, he, _⟩ := Model.Ubjson.encode_cons v
  have h := Model.Ubjson.enc_dec v rest (Model.Ubjson.needU v) hv (Nat.le_refl _)
  rw [he] at h
  exact ⟨Model.Ubjson.needU v, m, r ++ rest, by rw [he]; rfl, h⟩

/-- … and more fuel never changes the answer -/
theorem ubjson_roundtrip_any_fuel (v : CV) (hv : Model.Ubjson.OKu v) (rest : Bytes) (fuel : Nat) (hf : Model.Ubjson.needU v ≤ fuel) :
    Model.Ubjson.item fuel (Model.Ubjson.encode v ++ rest) = .ok (toValueUbjson v) rest :=
  Model.Ubjson.enc_dec v rest fuel hv hf

/-- `Model.Ubjson.item` is the reference decoder's entry point with the fuel made explicit -/
theorem ubjson_item_is_decode (s : Bytes) : Spec.Ubjson.decode s = Model.Ubjson.item (3 * s.length + 3) s :=
  Model.Ubjson.decode_eq_item s

/-- every integer in [-2^63, 2^63) - 'U', 'i', 'I', 'l', 'L' on either side of zero, by case split - is read back as itself -/
theorem ubjson_int_roundtrip (i : Int) (hlo : -(2 ^ 63 : Int) ≤ i) (hhi : i < 2 ^ 63) (rest : Bytes) (fuel : Nat) :
    Model.Ubjson.item (fuel + 1) (Model.Ubjson.writeInt i ++ rest) = .ok (.int i "") rest :=
  Model.Ubjson.item_int fuel i rest hlo hhi

/-- a length or count (written as an integer item by `put_length`) is read back exactly, for every length below 2^63 -/
theorem ubjson_length_roundtrip (n : Nat) (h : n < 2 ^ 63) (rest : Bytes) :
    Spec.Ubjson.length (Model.Ubjson.putLength n ++ rest) = some (n, rest) :=
  Model.Ubjson.length_putLength n h rest

/-- what the model refuses is exactly the integers UBJSON cannot express: a representable value with in-range negatives is in
    the integer part of the domain -/
theorem ubjson_representable_int (i : Int) : Model.Ubjson.representable (.int i) = true ↔ i < 2 ^ 63 := by
  simp [Model.Ubjson.representable]

/-! ### BSON -/

/-- the documented BSON mapping: everything itself, except that a byte string (written with the user-defined binary subtype 0x80)
    comes back marked "ext", a nested array (a document keyed "0", "1", …) comes back as the array of its values, and a ROOT array
    comes back as what it was written as: the document keyed by its indices -/
abbrev toValueBson : CV → BV := Model.Bson.toBVRoot

/-- encode then decode is the documented mapping on the BSON image of the core, for ALL values (any nesting), whatever follows the
    document. `OKb`: the root is a container (`encode` answers `none` = expected_bson_document otherwise), element names without 0x00
    and in UTF-8, integers in [-2^63, 2^63) (BSON has no uint64: the real encoder refuses the rest, as the model's `representable`
    says), UTF-8 text, the whole document shorter than 2^31 bytes (so every nested length fits its int32), nesting depth ≤ 1024. -/
theorem bson_roundtrip (v : CV) (hv : Model.Bson.OKb v) (rest : Bytes) :
    ∃ fuel bytes, Model.Bson.encode v = some bytes ∧ Spec.Bson.decodeWith fuel (bytes ++ rest) = .ok (toValueBson v) rest := by
  obtain ⟨b, h1, h2⟩ := Model.Bson.enc_dec v hv rest (Model.Bson.needV v) (Nat.le_refl _)
  exact ⟨_, b, h1, h2⟩

/-- … and more fuel never changes the answer -/
theorem bson_roundtrip_any_fuel (v : CV) (hv : Model.Bson.OKb v) (rest : Bytes) (fuel : Nat) (hf : Model.Bson.needV v ≤ fuel) :
    ∃ bytes, Model.Bson.encode v = some bytes ∧ Spec.Bson.decodeWith fuel (bytes ++ rest) = .ok (toValueBson v) rest :=
  Model.Bson.enc_dec v hv rest fuel hf

/-- … in particular the fuel the reference decoder's entry point gives itself is enough: `Spec.Bson.decode`, the very function the
    real decoder is compared with in C07, reads the encoder's bytes back -/
theorem bson_roundtrip_decode (v : CV) (hv : Model.Bson.OKb v) (rest : Bytes) :
    ∃ bytes, Model.Bson.encode v = some bytes ∧ Spec.Bson.decode (bytes ++ rest) = .ok (toValueBson v) rest :=
  Model.Bson.decode_encode v hv rest

/-- the domain of the theorem lies inside what the encoder accepts (the model's `representable` is what the driver answers "err"
    by, refusal for refusal with the real encoder) -/
theorem bson_domain_accepted (v : CV) (hv : Model.Bson.OKb v) : Model.Bson.representable v = true :=
  Model.Bson.representable_of_OKb v hv

/-- int32 exactly when the value is in [INT32_MIN, INT32_MAX], int64 otherwise: type byte and width -/
theorem bson_int_width (i : Int) :
    (Model.Bson.typeCode (.int i), (Model.Bson.value (.int i)).length) =
      if -2147483648 ≤ i ∧ i ≤ 2147483647 then (0x10, 4) else (0x12, 8) := by
  by_cases h : -2147483648 ≤ i ∧ i ≤ 2147483647
  · simp [Model.Bson.typeCode, Model.Bson.value, Model.Bson.fitsInt32, h, Model.Bson.int32Bytes, Model.Bson.length_leBytes]
  · simp [Model.Bson.typeCode, Model.Bson.value, Model.Bson.fitsInt32, h, Model.Bson.int64Bytes, Model.Bson.length_leBytes]

/-- every integer in [-2^63, 2^63), whichever width was chosen, is read back as itself (as the value of an element `name`) -/
theorem bson_int_roundtrip (i : Int) (hlo : -(2 ^ 63 : Int) ≤ i) (hhi : i < 2 ^ 63) (name tl : Bytes) (ms : List (Bytes × BV)) (fuel : Nat)
    (hn : Model.Bson.NameOK name) (hr : Spec.Bson.elements fuel tl = .ok ms []) :
    Spec.Bson.elements (fuel + 1) (Model.Bson.typeCode (.int i) :: (name ++ 0 :: (Model.Bson.value (.int i) ++ tl))) =
      .ok ((name, .int i "") :: ms) [] :=
  Model.Bson.value_el (.int i) name tl ms fuel (by simpa [Model.Bson.OKv] using And.intro hlo hhi) hn
    (by by_cases h : Model.Bson.fitsInt32 i = true <;>
        simp [Model.Bson.value, h, Model.Bson.int32Bytes, Model.Bson.int64Bytes, Model.Bson.length_leBytes])
    (by simp [Model.Bson.needV]) hr

/-- the back-patched length field: the first four bytes of a finished document, read little-endian, are its total length (the four
    bytes themselves and the trailing 0x00 included), and the last byte is 0x00 -/
theorem bson_length_field (body : Bytes) (h : body.length + 5 < 2 ^ 32) :
    Spec.leVal ((Model.Bson.doc body).take 4) = (Model.Bson.doc body).length ∧ (Model.Bson.doc body).getLast? = some 0 := by
  constructor
  · have : (Model.Bson.doc body).take 4 = Model.Bson.leBytes 4 (body.length + 5) := by
      have h4 : 4 = (Model.Bson.leBytes 4 (body.length + 5)).length := by simp [Model.Bson.length_leBytes]
      simp only [Model.Bson.doc, List.append_assoc]
      conv => lhs; rw [h4]
      exact List.take_left
    rw [this, Model.Bson.leVal_leBytes4 _ h, Model.Bson.length_doc]
  · simp [Model.Bson.doc]

/-- a scalar root is refused (expected_bson_document); an array root is written as the document keyed by its indices -/
theorem bson_root (v : CV) :
    Model.Bson.encode v = match v with
      | .map ms => some (Model.Bson.doc (Model.Bson.mapBody ms))
      | .arr xs => some (Model.Bson.doc (Model.Bson.arrBody 0 xs))
      | _ => none := by
  cases v <;> rfl

/-- array items are named by their index in decimal: "0" … "9", "10", "11", … -/
example : (List.range 13).map Model.Bson.indexName =
    [[48], [49], [50], [51], [52], [53], [54], [55], [56], [57], [49, 48], [49, 49], [49, 50]] := by decide
example : Model.Bson.indexName 1000 = [49, 48, 48, 48] := by decide

/-! ### non-vacuity -/
/-- "0x10000000000000000p-3" -/
example : Model.BigFloat.render (2 ^ 64) (-3) = [48, 120, 49, 48, 48, 48, 48, 48, 48, 48, 48, 48, 48, 48, 48, 48, 48, 48, 48, 112, 45, 51] := by
  simp [Model.BigFloat.render, Model.BigFloat.toHex, Model.BigFloat.hexDigit]
/-- "-0x18p3" is written as tag 5 [3, -24] -/
example : Model.BigFloat.encodeText [45, 48, 120, 49, 56, 112, 51] = some [0xc5, 0x82, 0x03, 0x37] := by
  simp [Model.BigFloat.encodeText, Model.BigFloat.parse, Model.BigFloat.splitP, Model.BigFloat.ofHex, Model.BigFloat.ofHexAcc,
    Model.BigFloat.hexVal, Model.BigFloat.parseExp, Model.BigFloat.signed, Model.BigFloat.encodeBigfloat, Model.BigFloat.fitsInt64,
    writeInt, writeHead]
/-- a mantissa of 2^64 travels as a bignum (tag 2, nine bytes) -/
example : Model.BigFloat.encodeBigfloat (2 ^ 64) (-3) = some [0xc5, 0x82, 0x22, 0xc2, 0x49, 1, 0, 0, 0, 0, 0, 0, 0, 0] := by
  simp [Model.BigFloat.encodeBigfloat, Model.BigFloat.fitsInt64, writeInt, writeHead, Model.BigFloat.writeBignum, Model.BigFloat.beMag]
def sample : CV := .map [([97], .arr [.int 23, .int 24, .int (-1), .int (2 ^ 64 - 1), .int (-(2 ^ 63))]),
                          ([195, 169], .str [240, 159, 152, 128]), ([98], .bytes [0, 255]), ([99], .map []), ([100], .null)]
example : OK sample := by
  simp [sample, OK, OKList, OKMembers, Spec.Rfc8259.validUtf8]
example : encode (.arr [.int 23, .int 24, .str [97]]) = [0x83, 0x17, 0x18, 0x18, 0x61, 0x61] := by decide
example : encodeDouble 0x3ff8000000000000 = [0xfa, 0x3f, 0xc0, 0, 0] := by decide
example : encodeDouble 0x3ff199999999999a = [0xfb, 0x3f, 0xf1, 0x99, 0x99, 0x99, 0x99, 0x99, 0x9a] := by decide

/-! MessagePack: the sample is in the domain, the model writes the bytes of the specification's examples, and the reference decoder
    reads the sample's bytes back (computed, not assumed) -/
example : Model.Msgpack.OKm sample := by
  simp [sample, Model.Msgpack.OKm, Model.Msgpack.OKmList, Model.Msgpack.OKmMembers, Spec.Rfc8259.validUtf8]
example : Model.Msgpack.encode (.arr [.int 127, .int 128, .int (-32), .int (-33), .int 65536, .str [97], .bytes [1], .null, .bool true]) =
    [0x99, 0x7f, 0xcc, 0x80, 0xe0, 0xd0, 0xdf, 0xce, 0, 1, 0, 0, 0xa1, 0x61, 0xc4, 1, 1, 0xc0, 0xc3] := by decide
example : Model.Msgpack.encode (.map [([97], .int (-(2 ^ 63))), ([98], .int (2 ^ 64 - 1))]) =
    [0x82, 0xa1, 0x61, 0xd3, 0x80, 0, 0, 0, 0, 0, 0, 0, 0xa1, 0x62, 0xcf, 255, 255, 255, 255, 255, 255, 255, 255] := by decide
example : Model.Msgpack.encodeDouble 0x3ff8000000000000 = [0xca, 0x3f, 0xc0, 0, 0] := by decide
example : Model.Msgpack.encodeDouble 0x3ff199999999999a = [0xcb, 0x3f, 0xf1, 0x99, 0x99, 0x99, 0x99, 0x99, 0x9a] := by decide
example : Spec.Msgpack.decode (Model.Msgpack.encode sample) = .ok (toValue sample) [] := by rfl

/-! UBJSON: a sample in the domain (integers below 2^63), the bytes of small examples, and the reference decoder on the sample's bytes -/
def sampleU : CV := .map [([97], .arr [.int 255, .int 256, .int (-1), .int (2 ^ 63 - 1), .int (-(2 ^ 63))]),
                           ([195, 169], .str [240, 159, 152, 128]), ([98], .bytes [0, 255]), ([99], .map []), ([100], .null)]
example : Model.Ubjson.OKu sampleU := by
  simp [sampleU, Model.Ubjson.OKu, Model.Ubjson.OKuList, Model.Ubjson.OKuMembers, Spec.Rfc8259.validUtf8]
example : Model.Ubjson.encode (.arr [.int 255, .int 256, .int (-128), .int (-129), .str [97], .bytes [1, 2], .null, .bool true]) =
    [91, 35, 85, 8, 85, 255, 73, 1, 0, 105, 128, 73, 255, 127, 83, 85, 1, 97, 91, 36, 85, 35, 85, 2, 1, 2, 90, 84] := by decide
example : Model.Ubjson.encode (.map [([97], .int 32768)]) = [123, 35, 85, 1, 85, 1, 97, 108, 0, 0, 128, 0] := by decide
example : Model.Ubjson.representable (.arr [.int (2 ^ 63)]) = false := by decide
/-- the entry point `decode` (fuel 3·length+3) has enough fuel for the sample: the theorem's hypotheses are dischargeable -/
example : Spec.Ubjson.decode (Model.Ubjson.encode sampleU) = .ok (toValueUbjson sampleU) [] := by
  have h := ubjson_roundtrip_any_fuel sampleU
    (by simp [sampleU, Model.Ubjson.OKu, Model.Ubjson.OKuList, Model.Ubjson.OKuMembers, Spec.Rfc8259.validUtf8]) []
    (3 * (Model.Ubjson.encode sampleU).length + 3) (by decide)
  rw [ubjson_item_is_decode]
  simpa using h

/-! BSON: a sample in the domain, the bytes the real encoder writes for small documents (copied from its output), the reference decoder on
    the sample's bytes, a root array, the refusals, and the bug-faithful corner that `OKb` excludes -/
def sampleB : CV := .map [([97], .arr [.int 2147483647, .int 2147483648, .int (-2147483648), .int (-2147483649), .int (2 ^ 63 - 1), .int (-(2 ^ 63))]),
                           ([195, 169], .str [240, 159, 152, 128, 0, 97]), ([98], .bytes [0, 255]), ([99], .map []), ([100], .null),
                           ([101], .arr [.arr [], .arr [.bool true, .dbl 0x7ff8000000000001]]), ([], .dbl 0x3ff8000000000000)]
theorem sampleB_ok : Model.Bson.OKb sampleB := by
  refine ⟨rfl, ?_, by decide +kernel, by decide +kernel⟩
  simp [sampleB, Model.Bson.OKv, Model.Bson.OKvList, Model.Bson.OKvMembers, Model.Bson.NameOK, Spec.Rfc8259.validUtf8]
/-- { "a": 1, "b": [1, "a", [], {}] } -/
example : Model.Bson.encode (.map [([97], .int 1), ([98], .arr [.int 1, .str [97], .arr [], .map []])]) =
    some [0x34, 0, 0, 0, 0x10, 0x61, 0, 1, 0, 0, 0, 0x04, 0x62, 0, 0x25, 0, 0, 0, 0x10, 0x30, 0, 1, 0, 0, 0, 0x02, 0x31, 0, 2, 0, 0, 0, 0x61, 0,
          0x04, 0x32, 0, 5, 0, 0, 0, 0, 0x03, 0x33, 0, 5, 0, 0, 0, 0, 0, 0] := by decide
/-- { "a": 2^31, "b": -2^31-1, "d": bytes 01 02 } -/
example : Model.Bson.encode (.map [([97], .int 2147483648), ([98], .int (-2147483649)), ([100], .bytes [1, 2])]) =
    some [0x25, 0, 0, 0, 0x12, 0x61, 0, 0, 0, 0, 0x80, 0, 0, 0, 0, 0x12, 0x62, 0, 0xff, 0xff, 0xff, 0x7f, 0xff, 0xff, 0xff, 0xff,
          0x05, 0x64, 0, 2, 0, 0, 0, 0x80, 1, 2, 0] := by decide
/-- a root array [1, 2] is written as { "0": 1, "1": 2 }; the empty document is five bytes -/
example : Model.Bson.encode (.arr [.int 1, .int 2]) = some [0x13, 0, 0, 0, 0x10, 0x30, 0, 1, 0, 0, 0, 0x10, 0x31, 0, 2, 0, 0, 0, 0] := by decide
example : Model.Bson.encode (.map []) = some [5, 0, 0, 0, 0] ∧ Model.Bson.encode (.arr []) = some [5, 0, 0, 0, 0] := by decide
example : toValueBson (.arr [.int 1, .int 2]) = .map [([48], .int 1 ""), ([49], .int 2 "")] := by rfl
example : Model.Bson.encode (.int 1) = none ∧ Model.Bson.representable (.map [([97], .int (2 ^ 63))]) = false ∧
    Model.Bson.representable (.map [([97], .str [255])]) = false := by decide
set_option maxRecDepth 16384 in
/-- the entry point `decode` on the sample's bytes: computed, and as an instance of the theorem -/
example : (Model.Bson.encode sampleB).map Spec.Bson.decode = some (.ok (toValueBson sampleB) []) := by rfl
example : ∃ bytes, Model.Bson.encode sampleB = some bytes ∧ Spec.Bson.decode bytes = .ok (toValueBson sampleB) [] := by
  simpa using bson_roundtrip_decode sampleB sampleB_ok []
/-- why `OKb` asks for names without 0x00: the bytes written for { "a\0b": null } are cut at the 0x00 by any reader of C strings - the
    reference decoder finds an element of type 0x62 ('b') next and calls the document ill-formed -/
example : (Model.Bson.encode (.map [([97, 0, 98], .null)])).map Spec.Bson.decode = some .illformed := by rfl

end JV.Props.C06
