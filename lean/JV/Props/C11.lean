/-
  C11 — JSON Schema validation verdicts are correct.

  `JV.Spec.JsonSchema` is a reference validator written from the specification for the unambiguous core vocabulary
  (see its header); the correspondence check compares jsoncons' verdict with it on generated (dialect, schema, instance)
  triples and cross-checks is_valid / reporter / throwing / visitor forms, reuse of the compiled schema and member order
  in the harness. Proved here: the reference has the logical laws the specification implies, for all schemas and
  instances — so a disagreement with jsoncons is a disagreement with a validator that is at least internally the logic
  the keywords describe.
-/
import JV.Spec.JsonSchema
namespace JV
namespace Props
namespace C11
open Spec.JsonSchema

theorem true_schema_accepts (v : JVal) : valid (.bool true) v = true := by simp [valid, validate]
theorem false_schema_rejects (v : JVal) : valid (.bool false) v = false := by simp [valid, validate]
theorem empty_schema_accepts (v : JVal) : valid (.node [] none none) v = true := by
  simp [valid, validate, validateKws, finish, unevalItems, unevalProps]

/-- a schema object with one keyword and no unevaluated* keyword is valid exactly when the keyword is -/
theorem single_keyword (k : Kw) (v : JVal) : valid (.node [k] none none) v = (validateKw k v).isSome := by
  simp only [valid, validate, validateKws]
  cases validateKw k v <;> simp [finish, unevalItems, unevalProps]

theorem not_inverts (s : Schema) (v : JVal) : valid (.node [.not s] none none) v = !valid s v := by
  rw [single_keyword]
  simp only [validateKw, valid]
  cases (validate s v).isSome <;> simp

theorem double_negation (s : Schema) (v : JVal) :
    valid (.node [.not (.node [.not s] none none)] none none) v = valid s v := by
  rw [not_inverts, not_inverts]; simp

theorem allAnn_isSome : ∀ (rs : List (Option Ann)), (allAnn rs).isSome = rs.all (·.isSome)
  | [] => by simp [allAnn]
  | none :: rs => by simp [allAnn]
  | some a :: rs => by simp [allAnn, allAnn_isSome rs]

theorem all_validateEach (ss : List Schema) (v : JVal) :
    (validateEach ss v).all (·.isSome) = ss.all (fun s => valid s v) := by
  induction ss with
  | nil => simp [validateEach]
  | cons s ss ih => simp [validateEach, valid, ih]

theorem any_validateEach (ss : List Schema) (v : JVal) :
    (validateEach ss v).any (·.isSome) = ss.any (fun s => valid s v) := by
  induction ss with
  | nil => simp [validateEach]
  | cons s ss ih => simp [validateEach, valid, ih]

/-- allOf: valid exactly when every subschema is -/
theorem allOf_is_conjunction (ss : List Schema) (v : JVal) :
    valid (.node [.allOf ss] none none) v = ss.all (fun s => valid s v) := by
  rw [single_keyword]
  simp only [validateKw, allAnn_isSome]
  exact all_validateEach ss v

/-- anyOf: valid exactly when some subschema is -/
theorem anyOf_is_disjunction (ss : List Schema) (v : JVal) :
    valid (.node [.anyOf ss] none none) v = ss.any (fun s => valid s v) := by
  rw [single_keyword]
  simp only [validateKw]
  rw [← any_validateEach ss v]
  cases h : (validateEach ss v).any (·.isSome) <;> simp [h]

/-- oneOf: valid exactly when exactly one subschema is -/
theorem oneOf_is_exactly_one (ss : List Schema) (v : JVal) :
    valid (.node [.oneOf ss] none none) v = decide ((ss.filter (fun s => valid s v)).length = 1) := by
  rw [single_keyword]
  simp only [validateKw]
  have hlen : ((validateEach ss v).filter (·.isSome)).length = (ss.filter (fun s => valid s v)).length := by
    induction ss with
    | nil => simp [validateEach]
    | cons s ss ih =>
      simp only [validateEach, List.filter_cons, valid]
      cases (validate s v).isSome <;> simp [ih, valid]
  rw [hlen]
  by_cases h : (ss.filter (fun s => valid s v)).length = 1 <;> simp [h]

theorem condResult_isSome (ri rt re : Option Ann) :
    (condResult ri (some rt) (some re)).isSome = (if ri.isSome then rt.isSome else re.isSome) := by
  cases ri <;> cases rt <;> cases re <;> simp [condResult]

/-- if / then / else -/
theorem conditional (i t e : Schema) (v : JVal) :
    valid (.node [.cond i (some t) (some e)] none none) v = (if valid i v then valid t v else valid e v) := by
  rw [single_keyword]
  simp only [validateKw, valid]
  exact condResult_isSome _ _ _

/-- the numeric keywords constrain numbers only -/
theorem minimum_ignores_non_numbers (n : Int) (v : JVal) (h : ∀ i, v ≠ .int i) : (validateKw (.minimum n) v).isSome = true := by
  cases v <;> simp_all [validateKw]

theorem maxLength_ignores_non_strings (n : Nat) (v : JVal) (h : ∀ s, v ≠ .str s) : (validateKw (.maxLength n) v).isSome = true := by
  cases v <;> simp_all [validateKw]

theorem required_ignores_non_objects (ks : List Bytes) (v : JVal) (h : v.isObject = false) : (validateKw (.required ks) v).isSome = true := by
  cases v <;> simp_all [validateKw, JVal.isObject]

/-- `unevaluatedProperties: false` alone admits exactly the objects without members (and every non-object) -/
theorem unevaluated_false_alone (ms : List (Bytes × JVal)) :
    valid (.node [] (some (.bool false)) none) (.obj ms) = ms.isEmpty := by
  cases ms with
  | nil => simp [valid, validate, validateKws, finish, unevalItems, unevalProps]
  | cons m ms => simp [valid, validate, validateKws, finish, unevalItems, unevalProps]

/-- exclusive bounds are strict, inclusive ones are not: the boundary value itself -/
theorem exclusiveMinimum_rejects_the_bound (n : Int) : (validateKw (.exclusiveMinimum n) (.int n)).isSome = false := by
  simp [validateKw]
theorem minimum_accepts_the_bound (n : Int) : (validateKw (.minimum n) (.int n)).isSome = true := by
  simp [validateKw]

end C11
end Props
end JV
