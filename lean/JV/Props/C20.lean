/-
  C20 — immutable artifacts are safe to share across threads.

  Data races are facts about the compiled program under the C++ memory model; no Lean model exhibits them, and the check observes
  them with ThreadSanitizer on the real library (checks/c20.py). What is logic is the consequence the property draws from
  immutability: if no step writes the shared artifact, then under *every* interleaving each thread ends with exactly the result it
  computes alone (`schedule_independent`), hence the same as single-threaded (`same_as_sequential`).
-/
import JV.Model.SharedReaders
namespace JV
namespace Props
namespace C20
open Model.SharedReaders

variable {A L : Type}

theorem getElem_setLocal_ne (ls : List L) {i j : Nat} (l : L) (h : j ≠ i) : (setLocal ls i l)[j]? = ls[j]? := by
  simp [setLocal, List.getElem?_set_ne (Ne.symm h)]

theorem getElem_setLocal_self (ls : List L) {i : Nat} (l : L) (h : i < ls.length) : (setLocal ls i l)[i]? = some l := by
  simp [setLocal, h]

/-- **Every interleaving.** After any schedule, thread `j` holds what it computes alone from its initial state with as many
    steps as the schedule gave it — whatever the other threads did in between. -/
theorem schedule_independent (step : StepFn A L) (a : A) : ∀ (sched : List Nat) (ls : List L) (j : Nat) (l : L),
    ls[j]? = some l → (run step a sched ls)[j]? = some (alone step a j (countOf j sched) l)
  | [], ls, j, l, h => by simpa [run, countOf, alone] using h
  | i :: sched, ls, j, l, h => by
    simp only [run]
    by_cases e : i = j
    · subst e
      rw [h]
      have hlt : i < ls.length := by
        rcases Nat.lt_or_ge i ls.length with h' | h'
        · exact h'
        · simp [List.getElem?_eq_none h'] at h
      have := schedule_independent step a sched (setLocal ls i (step a i l)) i (step a i l) (getElem_setLocal_self ls _ hlt)
      simpa [countOf, alone] using this
    · cases hi : ls[i]? with
      | none =>
        have := schedule_independent step a sched ls j l h
        have hc : countOf j (i :: sched) = countOf j sched := by
          simp [countOf, List.filter_cons, e]
        rw [hc]; exact this
      | some li =>
        have hj : (setLocal ls i (step a i li))[j]? = some l := by
          rw [getElem_setLocal_ne ls _ (fun e' => e e'.symm)]; exact h
        have := schedule_independent step a sched _ j l hj
        have hc : countOf j (i :: sched) = countOf j sched := by
          simp [countOf, List.filter_cons, e]
        rw [hc]; exact this

/-- in particular two schedules that give thread `j` the same number of steps give it the same result: concurrent use returns what
    single-threaded use returns -/
theorem same_as_sequential (step : StepFn A L) (a : A) (s1 s2 : List Nat) (ls : List L) (j : Nat) (l : L)
    (h : ls[j]? = some l) (hc : countOf j s1 = countOf j s2) :
    (run step a s1 ls)[j]? = (run step a s2 ls)[j]? := by
  rw [schedule_independent step a s1 ls j l h, schedule_independent step a s2 ls j l h, hc]

/-! non-vacuity: two threads, three steps, an interleaving and the sequential order agree -/
example : run (fun (a : Nat) _ (l : Nat) => l + a) 5 [0, 1, 0] [0, 100] = run (fun (a : Nat) _ (l : Nat) => l + a) 5 [0, 0, 1] [0, 100] := by decide

end C20
end Props
end JV
