import JV.Basic.JVal
namespace JV.Props.C18
theorem placeholder : True := trivial
end JV.Props.C18
