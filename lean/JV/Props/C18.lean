/-
  C18 — CSV and TOON text round-trip tabular and tree data.

  Proved (CSV field and row layer, `JV.Model.Csv`): for every delimiter, quote and quote-escape character that can be told apart
  (`Opts.Compatible`), every quote style that quotes when needed (minimal, all, nonnumeric) and every byte string,
    * the field the encoder writes is read back by the parser's field scanner as exactly that byte string, the scan stopping in
      front of the terminator that follows (`field_round_trip`);
    * a field containing the delimiter, the quote character, CR or LF is written quoted (`field_with_special_is_quoted`);
    * a whole record of any number of such fields is read back as those fields (`row_round_trip`).
  The model is tied to the code in both directions on every run: the encoder model must produce byte-for-byte the CSV text the real
  encoder writes for generated tables, and the parser model must read arbitrary texts over the significant characters exactly as
  the real parser does (rows or error).

  Not proved, checked by the round-trip streams on the real code only: record assembly for the three table shapes, headers, type
  inference, and all of TOON (no model; see DESIGN.md).
-/
import JV.Proofs.Csv
namespace JV
namespace Props
namespace C18
open Model.Csv

theorem field_round_trip (o : Opts) (hc : o.Compatible) (st : Style) (hst : st ≠ .none) (s rest : Bytes)
    (hrest : rest = [] ∨ ∃ t r, rest = t :: r ∧ isTerm o t = true) :
    scanField o (writeField o st s ++ rest) = .ok (quotes o st s, s, rest) := field_roundtrip o hc st hst s rest hrest

theorem field_with_special_is_quoted (o : Opts) (st : Style) (hst : st ≠ .none) (s : Bytes) (h : needsQuote o s = true) :
    quotes o st s = true := special_field_is_quoted o st hst s h

theorem row_round_trip (o : Opts) (hc : o.Compatible) (st : Style) (hst : st ≠ .none) (tail : Bytes)
    (htail : tail = [] ∨ ∃ t r, tail = t :: r ∧ (t = 10 ∨ t = 13)) (fields : List Bytes) (hne : fields ≠ []) :
    scanRow o fields.length (writeRow o st fields ++ tail) = .ok (fields, tail) :=
  row_roundtrip o hc st hst tail htail fields hne fields.length (Nat.le_refl _)

/-! non-vacuity: the usual option sets are compatible -/
example : ({ delim := 44, quote := 34, esc := 34 } : Opts).Compatible := by simp [Opts.Compatible]
example : ({ delim := 9, quote := 39, esc := 92 } : Opts).Compatible := by simp [Opts.Compatible]
example : writeField { delim := 44, quote := 34, esc := 34 } .minimal [97, 10, 34] = [34, 97, 10, 34, 34, 34] := by decide

end C18
end Props
end JV
