import JV.Model.Cbor
namespace JV.Props.C08
theorem placeholder : True := trivial
end JV.Props.C08
