/-
  C08 — encoders emit only well-formed output; transcoding stays valid.

  Proved here, (1) acceptance: the container-length bookkeeping of the CBOR encoder (Model JV.Model.EncoderLen = stack_item /
  end_value / visit_begin_* / visit_end_* of cbor_encoder.hpp; the MessagePack and UBJSON encoders use the
  same scheme), for event sequences of any shape and depth: if every announced length equals the number
  of items actually pushed the sequence is accepted and counts as exactly one item of its parent; an
  array or object announced with a wrong length is refused with too_few_items / too_many_items.

  Proved here, (2) the output denotes the input, for all four binary encoders on the data-model core: the encoders are modelled as
  consumers of visitor EVENTS (JV.Model.EncoderEvents: CBOR / MessagePack / UBJSON write each event's bytes at once, definite
  lengths; BSON keeps a stack of open containers, names array items by index, remembers the member name for the next value and
  back-patches every document's length when it ends - nothing reaches the sink before the root ends). For EVERY value v in the
  format's domain, feeding `events v` (the sequence basic_json::dump produces: each container announced with its length) to the
  encoder model (a) passes the length bookkeeping and leaves it balanced, and (b) leaves in the sink bytes which the format's
  reference decoder (JV.Spec.Cbor / Msgpack / Ubjson / Bson - written from the specifications, the ones the real decoders are judged
  by in C07) reads back as the documented image of v, leaving whatever follows untouched: `cbor_output_denotes_input`,
  `msgpack_output_denotes_input`, `ubjson_output_denotes_input`, `bson_output_denotes_input`. These are corollaries of the C06
  round trips through `*_events_are_encode` (the event-driven model writes exactly the bytes of the value-level model `encode`).
  They are statements about the encoder MODELS; the models are tied to the real encoders byte for byte by the C06 streams
  `cbor-encoder-model`, `msgpack-encoder-model`, `ubjson-encoder-model`, `bson-encoder-model` (value level, encode_X) and by this
  check's `encoder-events-model` stream (event level: the same event tokens pushed into the real *_bytes_encoder and into
  JV.Model.EncoderEvents, bytes and refusals compared).
  Domains: CBOR `OK` (ints in [-2^63, 2^64), lengths < 2^64), MessagePack `OKm` (lengths < 2^32), UBJSON `OKu` (ints < 2^63; a byte
  string comes back as the array of its bytes), BSON `OKb` (root a container - a root array comes back as the document keyed by its
  indices -, names without 0x00, ints < 2^63, whole document < 2^31 bytes; a byte string comes back marked "ext").

  Decided per case on the real code (see the check's streams): all four binary encoders and both JSON
  encoders on generated event sequences (right, wrong and absent lengths; tags; string packing), outputs
  judged by the Lean reference decoders / RFC 8259 reference parser and by decoding them back;
  MessagePack timestamps by an independent reader; transcoding between all formats and to JSON text.
  D27, D28 were found there and repaired; D13 is recorded.
-/
import JV.Proofs.EncoderLen
import JV.Proofs.CborRoundtrip
import JV.Proofs.MsgpackRoundtrip
import JV.Proofs.UbjsonRoundtrip
import JV.Proofs.BsonRoundtrip
import JV.Proofs.EncoderEvents
namespace JV.Props.C08
open JV Model.EncoderLen

/-- exact announcements are accepted, at any nesting, inside any enclosing context -/
theorem exact_lengths_accepted (t : Tree) (st : List Frame) (h : Exact t) : run st (events t) = .ok (endValue st) :=
  run_exact t st h

/-- a whole document with exact announcements leaves the encoder balanced -/
theorem document_accepted (t : Tree) (h : Exact t) : run [] (events t) = .ok [] := by
  simpa [endValue] using run_exact t [] h

/-- too few or too many items in an array are reported, never written -/
theorem wrong_array_length_refused (n : Nat) (xs : List Tree) (st : List Frame) (hne : n ≠ xs.length) (hx : ExactList xs) :
    run st (events (.arr (some n) xs)) = .error (if xs.length < n then .tooFew else .tooMany) :=
  run_wrong_array n xs st hne hx

theorem wrong_object_length_refused (n : Nat) (ms : List Tree) (st : List Frame) (hne : n ≠ ms.length) (hx : ExactList ms) :
    run st (events (.obj (some n) ms)) = .error (if ms.length < n then .tooFew else .tooMany) :=
  run_wrong_object n ms st hne hx

/-! ### the output denotes the input -/
/-- the event sequence `basic_json::dump(visitor)` produces for a value (every container announced with its length) -/
abbrev valueEvents : Model.Cbor.CV → List Model.EncoderEvents.Ev := Model.EncoderEvents.events

/-- the events of a value, pushed into the event-driven encoder models, write exactly the bytes of the value-level models -/
theorem cbor_events_are_encode (v : Model.Cbor.CV) : Model.EncoderEvents.feed Model.EncoderEvents.Cbor.emit (valueEvents v) = Model.Cbor.encode v :=
  Model.EncoderEvents.Cbor.feed_events v
theorem msgpack_events_are_encode (v : Model.Cbor.CV) : Model.EncoderEvents.feed Model.EncoderEvents.Msgpack.emit (valueEvents v) = Model.Msgpack.encode v :=
  Model.EncoderEvents.Msgpack.feed_events v
theorem ubjson_events_are_encode (v : Model.Cbor.CV) : Model.EncoderEvents.feed Model.EncoderEvents.Ubjson.emit (valueEvents v) = Model.Ubjson.encode v :=
  Model.EncoderEvents.Ubjson.feed_events v
/-- BSON: through the stack of open containers and the back-patched lengths; refused (`none`) exactly for a scalar root -/
theorem bson_events_are_encode (v : Model.Cbor.CV) (h : Model.Bson.scalarsOK v = true) :
    Model.EncoderEvents.Bson.feed (valueEvents v) = Model.Bson.encode v :=
  Model.EncoderEvents.Bson.feed_events v h

/-- the events of ANY value announce exact lengths: the bookkeeping accepts them and ends balanced -/
theorem value_events_accepted (v : Model.Cbor.CV) : run [] ((valueEvents v).map Model.EncoderEvents.shape) = .ok [] :=
  Model.EncoderEvents.events_accepted v

/-- CBOR: for every value of the core in the domain, its events are accepted and the bytes the encoder model writes for them denote,
    under the RFC 8949 reference decoder, exactly that value (whatever follows is left untouched) -/
theorem cbor_output_denotes_input (v : Model.Cbor.CV) (hv : Model.Cbor.OK v) (rest : Bytes) :
    run [] ((valueEvents v).map Model.EncoderEvents.shape) = .ok [] ∧
    Spec.Cbor.item (Model.Cbor.need v) none (Model.EncoderEvents.feed Model.EncoderEvents.Cbor.emit (valueEvents v) ++ rest) = .ok (Model.Cbor.toBV v) rest := by
  rw [cbor_events_are_encode]
  exact ⟨value_events_accepted v, Model.Cbor.enc_dec v rest _ hv (Nat.le_refl _)⟩

/-- MessagePack: the same, under the MessagePack reference decoder -/
theorem msgpack_output_denotes_input (v : Model.Cbor.CV) (hv : Model.Msgpack.OKm v) (rest : Bytes) :
    run [] ((valueEvents v).map Model.EncoderEvents.shape) = .ok [] ∧
    Spec.Msgpack.item (Model.Cbor.need v) (Model.EncoderEvents.feed Model.EncoderEvents.Msgpack.emit (valueEvents v) ++ rest) = .ok (Model.Cbor.toBV v) rest := by
  rw [msgpack_events_are_encode]
  exact ⟨value_events_accepted v, Model.Msgpack.enc_dec v rest _ hv (Nat.le_refl _)⟩

/-- UBJSON: the same, under the UBJSON reference decoder (entered with explicit fuel: `Model.Ubjson.item`, which is
    `Spec.Ubjson.decode` by `C06.ubjson_item_is_decode`) and the documented mapping (a byte string comes back as the array of its bytes) -/
theorem ubjson_output_denotes_input (v : Model.Cbor.CV) (hv : Model.Ubjson.OKu v) (rest : Bytes) :
    run [] ((valueEvents v).map Model.EncoderEvents.shape) = .ok [] ∧
    Model.Ubjson.item (Model.Ubjson.needU v) (Model.EncoderEvents.feed Model.EncoderEvents.Ubjson.emit (valueEvents v) ++ rest) = .ok (Model.Ubjson.toBVu v) rest := by
  rw [ubjson_events_are_encode]
  exact ⟨value_events_accepted v, Model.Ubjson.enc_dec v rest _ hv (Nat.le_refl _)⟩

/-- BSON: for every value in `OKb` the events are not refused, and what the root's end hands to the sink is read back by the BSON
    reference decoder's entry point as the documented image (a byte string marked "ext", a root array as the document keyed by its
    indices), leaving whatever follows untouched -/
theorem bson_output_denotes_input (v : Model.Cbor.CV) (hv : Model.Bson.OKb v) (rest : Bytes) :
    ∃ bytes, Model.EncoderEvents.Bson.feed (valueEvents v) = some bytes ∧
             Spec.Bson.decode (bytes ++ rest) = .ok (Model.Bson.toBVRoot v) rest := by
  rw [bson_events_are_encode v (Model.Bson.scalarsOK_of_OKv v hv.2.1)]
  exact Model.Bson.decode_encode v hv rest

/-! ### non-vacuity -/
example : Exact (.arr (some 2) [.scalar, .obj none [.scalar, .arr (some 0) []]]) := by
  simp [Exact, ExactList]
example : run [] (events (.arr (some 2) [.scalar])) = .error .tooFew := by rfl
example : run [] (events (.obj (some 1) [.scalar, .scalar])) = .error .tooMany := by rfl

/-- the events of { "a": [1, "x"], "b": {} } and what the four encoder models write for them -/
def sampleV : Model.Cbor.CV := .map [([97], .arr [.int 1, .str [120]]), ([98], .map [])]
example : (valueEvents sampleV).length = 10 := by decide
example : Model.EncoderEvents.feed Model.EncoderEvents.Cbor.emit (valueEvents sampleV) = [0xa2, 0x61, 0x61, 0x82, 0x01, 0x61, 0x78, 0x61, 0x62, 0xa0] := by decide
example : Model.EncoderEvents.feed Model.EncoderEvents.Msgpack.emit (valueEvents sampleV) = [0x82, 0xa1, 0x61, 0x92, 0x01, 0xa1, 0x78, 0xa1, 0x62, 0x80] := by decide
example : Model.EncoderEvents.feed Model.EncoderEvents.Ubjson.emit (valueEvents sampleV) =
    [123, 35, 85, 2, 85, 1, 97, 91, 35, 85, 2, 85, 1, 83, 85, 1, 120, 85, 1, 98, 123, 35, 85, 0] := by decide
example : Model.EncoderEvents.Bson.feed (valueEvents sampleV) =
    some [37, 0, 0, 0, 4, 97, 0, 21, 0, 0, 0, 16, 48, 0, 1, 0, 0, 0, 2, 49, 0, 2, 0, 0, 0, 120, 0, 0, 3, 98, 0, 5, 0, 0, 0, 0, 0] := by decide
/-- the BSON encoder refuses a scalar before any container, a second root, and an integer above INT64_MAX; an unfinished root leaves
    the sink empty -/
example : Model.EncoderEvents.Bson.feed [.int 1] = none ∧
    Model.EncoderEvents.Bson.feed [.beginObj 0, .endObj, .beginObj 0, .endObj] = none ∧
    Model.EncoderEvents.Bson.feed [.beginArr 1, .int (2 ^ 63)] = none ∧
    Model.EncoderEvents.Bson.feed [.beginArr 1, .int 1] = some [] := by decide
example : Model.Bson.OKb sampleV := by
  refine ⟨rfl, ?_, by decide +kernel, by decide +kernel⟩
  simp [sampleV, Model.Bson.OKv, Model.Bson.OKvList, Model.Bson.OKvMembers, Model.Bson.NameOK, Spec.Rfc8259.validUtf8]

end JV.Props.C08
