/-
  C08 — encoders emit only well-formed output; transcoding stays valid.

  Proved here: the container-length bookkeeping of the CBOR encoder (Model JV.Model.EncoderLen = stack_item /
  end_value / visit_begin_* / visit_end_* of cbor_encoder.hpp; the MessagePack and UBJSON encoders use the
  same scheme), for event sequences of any shape and depth: if every announced length equals the number
  of items actually pushed the sequence is accepted and counts as exactly one item of its parent; an
  array or object announced with a wrong length is refused with too_few_items / too_many_items. Together
  with C06.cbor_roundtrip (the bytes written for accepted data decode, under the RFC 8949 reference
  decoder, to that data) this is the CBOR instance of the property on the data-model core.

  Decided per case on the real code (see the check's streams): all four binary encoders and both JSON
  encoders on generated event sequences (right, wrong and absent lengths; tags; string packing), outputs
  judged by the Lean reference decoders / RFC 8259 reference parser and by decoding them back;
  MessagePack timestamps by an independent reader; transcoding between all formats and to JSON text.
  D27, D28 were found there and repaired; D13 is recorded.
-/
import JV.Proofs.EncoderLen
import JV.Proofs.CborRoundtrip
namespace JV.Props.C08
open JV Model.EncoderLen

/-- exact announcements are accepted, at any nesting, inside any enclosing context -/
theorem exact_lengths_accepted (t : Tree) (st : List Frame) (h : Exact t) : run st (events t) = .ok (endValue st) :=
  run_exact t st h

/-- a whole document with exact announcements leaves the encoder balanced -/
theorem document_accepted (t : Tree) (h : Exact t) : run [] (events t) = .ok [] := by
  simpa [endValue] using run_exact t [] h

/-- too few or too many items in an array are reported, never written -/
theorem wrong_array_length_refused (n : Nat) (xs : List Tree) (st : List Frame) (hne : n ≠ xs.length) (hx : ExactList xs) :
    run st (events (.arr (some n) xs)) = .error (if xs.length < n then .tooFew else .tooMany) :=
  run_wrong_array n xs st hne hx

theorem wrong_object_length_refused (n : Nat) (ms : List Tree) (st : List Frame) (hne : n ≠ ms.length) (hx : ExactList ms) :
    run st (events (.obj (some n) ms)) = .error (if ms.length < n then .tooFew else .tooMany) :=
  run_wrong_object n ms st hne hx

/-- accepted CBOR core data is written as bytes that denote exactly that data (restated from C06 for this property) -/
theorem cbor_output_denotes_input (v : Model.Cbor.CV) (hv : Model.Cbor.OK v) (rest : Bytes) :
    Spec.Cbor.item (Model.Cbor.need v) none (Model.Cbor.encode v ++ rest) = .ok (Model.Cbor.toBV v) rest :=
  Model.Cbor.enc_dec v rest _ hv (Nat.le_refl _)

/-! ### non-vacuity -/
example : Exact (.arr (some 2) [.scalar, .obj none [.scalar, .arr (some 0) []]]) := by
  simp [Exact, ExactList]
example : run [] (events (.arr (some 2) [.scalar])) = .error .tooFew := by rfl
example : run [] (events (.obj (some 1) [.scalar, .scalar])) = .error .tooMany := by rfl

end JV.Props.C08
