/-
  C07X — the translator tie for C07: the type codes the real binary decoders and encoders switch on
  (msgpack_type.hpp, ubjson_type.hpp, bson_type.hpp, cbor_detail.hpp), REGENERATED from the C++ source on every
  run (tools/extract.py → JV/Extracted/BinTypes.lean), are the codes of the specifications — stated twice:
  (1) against an explicit table written here from the specification texts, and (2) against the reference decoders
  of JV.Spec (which carry the codes as literals in their `if` chains): a probe input built from the EXTRACTED code
  is decoded by the reference to the kind of value the constant's name promises. All by `decide`.

  CBOR's `min_length_for_stringref` ladder is tied to the stringref specification (a string is only worth a table
  slot if a reference to it — tag 25 + the index as an unsigned integer — is shorter than the string) through the head
  writer model JV.Model.Cbor.writeHead: each rung ends exactly where the encoded index grows by a width.
-/
import JV.Spec.Cbor
import JV.Spec.BinFormats
import JV.Model.Cbor
import JV.Extracted.Lookup
import JV.Extracted.BinTypes
import JV.Extracted.ErrorCodes
namespace JV.Props.C07X
open JV JV.Extracted Spec.Cbor

/-- what a reference decoder made of a probe -/
inductive Kind where
  | null | undef | true_ | false_ | int | half | dbl | str | bytes | arr | map | illformed | unjudged
  deriving DecidableEq, Repr

def kind : Res BV → Kind
  | .ok .null _ => .null
  | .ok .undef _ => .undef
  | .ok (.bool true) _ => .true_
  | .ok (.bool false) _ => .false_
  | .ok (.int _ _) _ => .int
  | .ok (.half _) _ => .half
  | .ok (.dbl _ _) _ => .dbl
  | .ok (.str _ _) _ => .str
  | .ok (.bytes _ _) _ => .bytes
  | .ok (.arr _) _ => .arr
  | .ok (.map _) _ => .map
  | .illformed => .illformed
  | .unjudged => .unjudged

/-- every (name, value) of `expected` is in `table` with that value, and `table` has no further entries -/
def sameTable (table expected : List (String × Nat)) : Bool :=
  expected.all (fun p => lookup table p.1 == some p.2) && table.length == expected.length

/-! ### MessagePack (spec: github.com/msgpack/msgpack/blob/master/spec.md, "Formats" overview) -/

theorem msgpack_codes_are_the_specs :
    sameTable msgpackTypes
      [("positive_fixint_base_type", 0x00), ("fixmap_base_type", 0x80), ("fixarray_base_type", 0x90), ("fixstr_base_type", 0xa0),
       ("nil_type", 0xc0), ("false_type", 0xc2), ("true_type", 0xc3),
       ("bin8_type", 0xc4), ("bin16_type", 0xc5), ("bin32_type", 0xc6), ("ext8_type", 0xc7), ("ext16_type", 0xc8), ("ext32_type", 0xc9),
       ("float32_type", 0xca), ("float64_type", 0xcb), ("uint8_type", 0xcc), ("uint16_type", 0xcd), ("uint32_type", 0xce), ("uint64_type", 0xcf),
       ("int8_type", 0xd0), ("int16_type", 0xd1), ("int32_type", 0xd2), ("int64_type", 0xd3),
       ("fixext1_type", 0xd4), ("fixext2_type", 0xd5), ("fixext4_type", 0xd6), ("fixext8_type", 0xd7), ("fixext16_type", 0xd8),
       ("str8_type", 0xd9), ("str16_type", 0xda), ("str32_type", 0xdb), ("array16_type", 0xdc), ("array32_type", 0xdd),
       ("map16_type", 0xde), ("map32_type", 0xdf), ("negative_fixint_base_type", 0xe0)] = true := by decide

theorem msgpack_codes_distinct : distinct (values msgpackTypes) = true ∧ ∀ v ∈ values msgpackTypes, v < 256 := by decide

/-- probes: (constant, bytes following the type byte, what the reference decoder must make of it) -/
def msgpackProbes : List (String × Bytes × Kind) :=
  [("positive_fixint_base_type", [], .int), ("negative_fixint_base_type", [], .int),
   ("fixmap_base_type", [], .map), ("fixarray_base_type", [], .arr), ("fixstr_base_type", [], .str),
   ("nil_type", [], .null), ("false_type", [], .false_), ("true_type", [], .true_),
   ("bin8_type", [1, 0xff], .bytes), ("bin16_type", [0, 1, 0xff], .bytes), ("bin32_type", [0, 0, 0, 1, 0xff], .bytes),
   ("ext8_type", [1, 5, 0xff], .unjudged), ("ext16_type", [0, 1, 5, 0xff], .unjudged), ("ext32_type", [0, 0, 0, 1, 5, 0xff], .unjudged),
   ("float32_type", [0x3f, 0x80, 0, 0], .dbl), ("float64_type", [0x3f, 0xf0, 0, 0, 0, 0, 0, 0], .dbl),
   ("uint8_type", [200], .int), ("uint16_type", [1, 0], .int), ("uint32_type", [1, 0, 0, 0], .int), ("uint64_type", [1, 0, 0, 0, 0, 0, 0, 0], .int),
   ("int8_type", [0x80], .int), ("int16_type", [0x80, 0], .int), ("int32_type", [0x80, 0, 0, 0], .int), ("int64_type", [0x80, 0, 0, 0, 0, 0, 0, 0], .int),
   ("fixext1_type", [5, 1], .unjudged), ("fixext2_type", [5, 1, 2], .unjudged), ("fixext4_type", [5, 1, 2, 3, 4], .unjudged),
   ("fixext8_type", [5, 1, 2, 3, 4, 5, 6, 7, 8], .unjudged), ("fixext16_type", [5, 1, 2, 3, 4, 5, 6, 7, 8, 9, 10, 11, 12, 13, 14, 15, 16], .unjudged),
   ("str8_type", [1, 0x61], .str), ("str16_type", [0, 1, 0x61], .str), ("str32_type", [0, 0, 0, 1, 0x61], .str),
   ("array16_type", [0, 1, 0xc0], .arr), ("array32_type", [0, 0, 0, 1, 0xc0], .arr),
   ("map16_type", [0, 1, 0xa1, 0x61, 0xc0], .map), ("map32_type", [0, 0, 0, 1, 0xa1, 0x61, 0xc0], .map)]

/-- the reference decoder reads each extracted code as the kind of item its name says (and consumes the whole probe's width:
    one byte less is ill-formed for every code that has a payload) -/
theorem msgpack_codes_mean_what_they_say :
    msgpackProbes.length = msgpackTypes.length ∧
    ∀ p ∈ msgpackProbes, (lookup msgpackTypes p.1).map (fun code => kind (Spec.Msgpack.decode (code :: p.2.1))) = some p.2.2
      ∧ (p.2.1 ≠ [] → (lookup msgpackTypes p.1).map (fun code => kind (Spec.Msgpack.decode (code :: p.2.1.dropLast))) = some .illformed) := by
  decide +kernel

/-- exact values through the extracted codes: widths and signedness -/
theorem msgpack_integer_widths :
    (lookup msgpackTypes "uint16_type").map (fun c => Spec.Msgpack.decode [c, 0x12, 0x34]) = some (.ok (.int 0x1234 "") [])
    ∧ (lookup msgpackTypes "int8_type").map (fun c => Spec.Msgpack.decode [c, 0x80]) = some (.ok (.int (-128) "") [])
    ∧ (lookup msgpackTypes "int32_type").map (fun c => Spec.Msgpack.decode [c, 0xff, 0xff, 0xff, 0xfe]) = some (.ok (.int (-2) "") [])
    ∧ (lookup msgpackTypes "negative_fixint_base_type").map (fun c => Spec.Msgpack.decode [c]) = some (.ok (.int (-32) "") []) := by
  refine ⟨?_, ?_, ?_, ?_⟩ <;> rfl

/-! ### UBJSON (draft 12: ubjson.org/type-reference) -/

theorem ubjson_markers_are_the_specs :
    sameTable ubjsonTypes
      [("null_type", 'Z'.toNat), ("no_op_type", 'N'.toNat), ("true_type", 'T'.toNat), ("false_type", 'F'.toNat),
       ("int8_type", 'i'.toNat), ("uint8_type", 'U'.toNat), ("int16_type", 'I'.toNat), ("int32_type", 'l'.toNat), ("int64_type", 'L'.toNat),
       ("float32_type", 'd'.toNat), ("float64_type", 'D'.toNat), ("high_precision_number_type", 'H'.toNat),
       ("char_type", 'C'.toNat), ("string_type", 'S'.toNat),
       ("start_array_marker", '['.toNat), ("end_array_marker", ']'.toNat), ("start_object_marker", '{'.toNat), ("end_object_marker", '}'.toNat),
       ("type_marker", '$'.toNat), ("count_marker", '#'.toNat)] = true := by decide

theorem ubjson_markers_distinct : distinct (values ubjsonTypes) = true ∧ ∀ v ∈ values ubjsonTypes, 32 < v ∧ v < 127 := by decide

def ubjsonProbes : List (String × Bytes × Kind) :=
  [("null_type", [], .null), ("true_type", [], .true_), ("false_type", [], .false_),
   ("int8_type", [0x80], .int), ("uint8_type", [0x80], .int), ("int16_type", [0x80, 0], .int), ("int32_type", [0x80, 0, 0, 0], .int),
   ("int64_type", [0x80, 0, 0, 0, 0, 0, 0, 0], .int), ("float32_type", [0x3f, 0x80, 0, 0], .dbl), ("float64_type", [0x3f, 0xf0, 0, 0, 0, 0, 0, 0], .dbl),
   ("high_precision_number_type", [85, 1, 49], .unjudged), ("char_type", [0x61], .str), ("string_type", [85, 1, 0x61], .str),
   ("no_op_type", [], .illformed)]

theorem ubjson_markers_mean_what_they_say :
    ∀ p ∈ ubjsonProbes, (lookup ubjsonTypes p.1).map (fun m => kind (Spec.Ubjson.decode (m :: p.2.1))) = some p.2.2 := by decide +kernel

/-- containers, built only from extracted markers: `[` … `]`, `{` … `}`, `[$U#U…`, `[#U…`; a no-op inside an open array is skipped -/
theorem ubjson_container_markers :
    ∀ sa ea so eo ty cnt u8 nl noop, lookup ubjsonTypes "start_array_marker" = some sa → lookup ubjsonTypes "end_array_marker" = some ea →
      lookup ubjsonTypes "start_object_marker" = some so → lookup ubjsonTypes "end_object_marker" = some eo →
      lookup ubjsonTypes "type_marker" = some ty → lookup ubjsonTypes "count_marker" = some cnt →
      lookup ubjsonTypes "uint8_type" = some u8 → lookup ubjsonTypes "null_type" = some nl → lookup ubjsonTypes "no_op_type" = some noop →
      kind (Spec.Ubjson.decode [sa, nl, noop, nl, ea]) = .arr ∧ kind (Spec.Ubjson.decode [so, u8, 1, 0x61, nl, eo]) = .map
      ∧ kind (Spec.Ubjson.decode [sa, ty, u8, cnt, u8, 2, 7, 8]) = .arr ∧ kind (Spec.Ubjson.decode [sa, cnt, u8, 1, nl]) = .arr
      ∧ kind (Spec.Ubjson.decode [sa, nl]) = .illformed ∧ kind (Spec.Ubjson.decode [sa, ty, u8, u8]) = .illformed := by
  intro sa ea so eo ty cnt u8 nl noop h1 h2 h3 h4 h5 h6 h7 h8 h9
  have e1 : sa = 91 := Option.some.inj (h1.symm.trans (by decide))
  have e2 : ea = 93 := Option.some.inj (h2.symm.trans (by decide))
  have e3 : so = 123 := Option.some.inj (h3.symm.trans (by decide))
  have e4 : eo = 125 := Option.some.inj (h4.symm.trans (by decide))
  have e5 : ty = 36 := Option.some.inj (h5.symm.trans (by decide))
  have e6 : cnt = 35 := Option.some.inj (h6.symm.trans (by decide))
  have e7 : u8 = 85 := Option.some.inj (h7.symm.trans (by decide))
  have e8 : nl = 90 := Option.some.inj (h8.symm.trans (by decide))
  have e9 : noop = 78 := Option.some.inj (h9.symm.trans (by decide))
  subst e1 e2 e3 e4 e5 e6 e7 e8 e9
  decide +kernel

/-! ### BSON (bsonspec.org/spec.html, version 1.1) -/

theorem bson_element_types_are_the_specs :
    sameTable bsonTypes
      [("double_type", 0x01), ("string_type", 0x02), ("document_type", 0x03), ("array_type", 0x04), ("binary_type", 0x05),
       ("undefined_type", 0x06), ("object_id_type", 0x07), ("bool_type", 0x08), ("datetime_type", 0x09), ("null_type", 0x0A),
       ("regex_type", 0x0B), ("javascript_type", 0x0D), ("symbol_type", 0x0E), ("javascript_with_scope_type", 0x0F),
       ("int32_type", 0x10), ("timestamp_type", 0x11), ("int64_type", 0x12), ("decimal128_type", 0x13),
       ("min_key_type", 0xFF), ("max_key_type", 0x7F)] = true := by decide

theorem bson_element_types_distinct : distinct (values bsonTypes) = true ∧ ∀ v ∈ values bsonTypes, 0 < v ∧ v < 256 := by decide

/-- a document with one element named "a" of the given type and payload -/
def bsonDoc (ty : Nat) (payload : Bytes) : Bytes := [4 + 1 + 2 + payload.length + 1, 0, 0, 0, ty, 0x61, 0] ++ payload ++ [0]

/-- kind of the single member of a decoded one-element document -/
def memberKind : Res BV → Kind
  | .ok (.map [(_, v)]) rest => kind (.ok v rest)
  | .ok _ _ => .illformed
  | .illformed => .illformed
  | .unjudged => .unjudged

def bsonProbes : List (String × Bytes × Kind) :=
  [("double_type", [0, 0, 0, 0, 0, 0, 0xf0, 0x3f], .dbl), ("string_type", [2, 0, 0, 0, 0x62, 0], .str),
   ("document_type", [5, 0, 0, 0, 0], .map), ("array_type", [5, 0, 0, 0, 0], .arr),
   ("bool_type", [1], .true_), ("datetime_type", [1, 0, 0, 0, 0, 0, 0, 0], .int), ("null_type", [], .null),
   ("int32_type", [0xff, 0xff, 0xff, 0xff], .int), ("int64_type", [1, 0, 0, 0, 0, 0, 0, 0], .int),
   ("binary_type", [1, 0, 0, 0, 0, 0xff], .bytes), ("undefined_type", [], .unjudged), ("object_id_type", [1, 2, 3, 4, 5, 6, 7, 8, 9, 10, 11, 12], .unjudged),
   ("regex_type", [0x61, 0, 0], .unjudged), ("javascript_type", [1, 0, 0, 0, 0], .unjudged), ("symbol_type", [1, 0, 0, 0, 0], .unjudged),
   ("javascript_with_scope_type", [], .unjudged), ("timestamp_type", [1, 0, 0, 0, 0, 0, 0, 0], .unjudged),
   ("decimal128_type", [0, 0, 0, 0, 0, 0, 0, 0, 0, 0, 0, 0, 0, 0, 0x40, 0x30], .unjudged), ("min_key_type", [], .unjudged), ("max_key_type", [], .unjudged)]

/-- every extracted element type is an element type of the reference (judged kinds decode to the named kind, the rest is the
    reference's "well-formed, rendering is jsoncons' choice" class — none is ill-formed); 0x0C (DBPointer) and 0x14+ are in neither -/
theorem bson_element_types_mean_what_they_say :
    bsonProbes.length = bsonTypes.length ∧
    ∀ p ∈ bsonProbes, (lookup bsonTypes p.1).map (fun ty => memberKind (Spec.Bson.decode (bsonDoc ty p.2.1))) = some p.2.2 := by decide +kernel

/-- and every byte that is NOT an extracted element type (other than 0x0C, deprecated DBPointer, which the reference leaves unjudged)
    is ill-formed for the reference -/
theorem bson_other_types_illformed :
    ∀ ty, ty < 256 → ty ∉ values bsonTypes → ty ≠ 0x0C → memberKind (Spec.Bson.decode (bsonDoc ty [])) = .illformed := by decide +kernel

/-! ### CBOR (RFC 8949 §3, §3.1; RFC 8746; stringref: cbor.schmorp.de/stringref) -/

theorem cbor_major_types_are_rfc8949 :
    cborMajorType = [("unsigned_integer", 0), ("negative_integer", 1), ("byte_string", 2), ("text_string", 3), ("array", 4), ("map", 5),
      ("semantic_tag", 6), ("simple", 7)]
    ∧ lookup cborAdditionalInfo "indefinite_length" = some 31 := by decide

def cborProbes : List (String × Nat × Bytes × Kind) :=
  -- (major type, additional information, following bytes, kind)
  [("unsigned_integer", 24, [200], .int), ("negative_integer", 0, [], .int), ("byte_string", 1, [0xff], .bytes), ("text_string", 1, [0x61], .str),
   ("array", 1, [0xf6], .arr), ("map", 1, [0x61, 0x61, 0xf6], .map), ("semantic_tag", 24, [0x20, 0x61, 0x61], .str),
   ("simple", 22, [], .null), ("simple", 20, [], .false_), ("simple", 21, [], .true_), ("simple", 23, [], .undef),
   ("simple", 25, [0x3c, 0], .half), ("simple", 27, [0x3f, 0xf0, 0, 0, 0, 0, 0, 0], .dbl)]

/-- initial byte = major type (from the extracted enum) × 32 + additional information: the reference reads the kind the name says;
    with the extracted `indefinite_length` an array/map/string is read up to the break, and is ill-formed on integers and tags -/
theorem cbor_major_types_mean_what_they_say :
    (∀ p ∈ cborProbes, (lookup cborMajorType p.1).map (fun m => kind (decode ((m * 32 + p.2.1) :: p.2.2.1))) = some p.2.2.2)
    ∧ ∀ il, lookup cborAdditionalInfo "indefinite_length" = some il →
        kind (decode [4 * 32 + il, 0xf6, 0xff]) = .arr ∧ kind (decode [5 * 32 + il, 0x61, 0x61, 0xf6, 0xff]) = .map
        ∧ kind (decode [3 * 32 + il, 0x61, 0x61, 0xff]) = .str ∧ kind (decode [2 * 32 + il, 0x41, 0x61, 0xff]) = .bytes
        ∧ kind (decode [0 * 32 + il]) = .illformed ∧ kind (decode [1 * 32 + il]) = .illformed ∧ kind (decode [6 * 32 + il, 0]) = .illformed := by
  refine ⟨by decide +kernel, ?_⟩
  intro il h
  have e : il = 31 := Option.some.inj (h.symm.trans (by decide))
  subst e
  decide +kernel

/-- the macro `JSONCONS_EXT_CBOR_0x00_0x17` lists exactly the additional-information values that ARE the argument (RFC 8949 §3:
    "less than 24"): those for which the reference's `readArg` consumes nothing -/
theorem cbor_small_args_are_direct :
    cborSmallArgs = List.range 24 ∧ ∀ ai, ai < 32 → (ai ∈ cborSmallArgs ↔ readArg ai [] = some (ai, [])) := by decide +kernel

/-- the macro `JSONCONS_EXT_CBOR_ARRAY_TAGS` is the RFC 8746 typed-array block 64–87, the tags the reference leaves to jsoncons' rendering;
    the bit-field masks partition the low five bits and the shifts are the masks' lowest set bits -/
theorem cbor_typed_array_tags_are_rfc8746 :
    (∀ t, t < 256 → (t ∈ cborArrayTags ↔ (64 ≤ t ∧ t ≤ 87)))
    ∧ sameTable cborArrayTagFields
        [("cbor_array_tags_010_mask", 0xE0), ("cbor_array_tags_f_mask", 0x10), ("cbor_array_tags_s_mask", 0x08), ("cbor_array_tags_e_mask", 0x04),
         ("cbor_array_tags_ll_mask", 0x03), ("cbor_array_tags_010_shift", 5), ("cbor_array_tags_f_shift", 4), ("cbor_array_tags_s_shift", 3),
         ("cbor_array_tags_e_shift", 2), ("cbor_array_tags_ll_shift", 0)] = true
    ∧ (∀ t ∈ cborArrayTags, (t &&& 0xE0) >>> 5 = 2) := by decide +kernel

/-- `min_length_for_stringref`, as extracted: rungs (largest index, minimum length) and the final else -/
theorem stringref_ladder_values :
    cborStringrefLadder = [(23, 3), (255, 4), (65535, 5), (4294967295, 7)] ∧ cborStringrefElse = 11 := by decide

/-- the ladder as a function of the index -/
def minLengthForStringref (index : Nat) : Nat :=
  match cborStringrefLadder.find? (fun r => index ≤ r.1) with
  | some r => r.2
  | none => cborStringrefElse

/-- stringref specification: a string gets a slot iff it is at least as long as a reference to it — tag 25 (two bytes, 0xd8 0x19) followed by
    the index encoded as an unsigned integer. With the head writer model: on each rung the minimum length is 2 + (encoded size of any index of
    the rung), each rung ends exactly where the encoded index grows (so the rung's bound + 1 already needs more), rungs ascend -/
theorem stringref_ladder_is_the_stringref_spec :
    (∀ r ∈ cborStringrefLadder, r.2 = 2 + (Model.Cbor.writeHead 0 r.1).length ∧ (Model.Cbor.writeHead 0 r.1).length < (Model.Cbor.writeHead 0 (r.1 + 1)).length)
    ∧ cborStringrefElse = 2 + (Model.Cbor.writeHead 0 (2 ^ 64 - 1)).length
    ∧ (cborStringrefLadder.map (·.1)).Pairwise (· < ·)
    ∧ minLengthForStringref 0 = 2 + (Model.Cbor.writeHead 0 0).length := by decide +kernel

/-- hence for EVERY index the extracted ladder gives 2 + the size of the encoded index -/
theorem stringref_min_length_all_indices (index : Nat) :
    minLengthForStringref index = 2 + (Model.Cbor.writeHead 0 index).length := by
  have hl := stringref_ladder_values
  unfold minLengthForStringref Model.Cbor.writeHead
  rw [hl.1, hl.2]
  by_cases h1 : index ≤ 23
  · simp [List.find?, h1]
  · by_cases h2 : index ≤ 255
    · simp [List.find?, h1, h2]
    · by_cases h3 : index ≤ 65535
      · simp [List.find?, h1, h2, h3, Model.Cbor.beBytes]
      · by_cases h4 : index ≤ 4294967295
        · simp [List.find?, h1, h2, h3, h4, Model.Cbor.beBytes]
        · simp [List.find?, h1, h2, h3, h4, Model.Cbor.beBytes]

/-! ### error enumerations of the four decoders: 0 is success, values distinct -/
theorem binary_errc_wellformed :
    lookup cborErrc "success" = some 0 ∧ lookup msgpackErrc "success" = some 0 ∧ lookup ubjsonErrc "success" = some 0 ∧ lookup bsonErrc "success" = some 0
    ∧ distinct (values cborErrc) = true ∧ distinct (values msgpackErrc) = true ∧ distinct (values ubjsonErrc) = true ∧ distinct (values bsonErrc) = true
    ∧ (lookup cborErrc "unexpected_eof", lookup msgpackErrc "unexpected_eof", lookup ubjsonErrc "unexpected_eof", lookup bsonErrc "unexpected_eof")
        = (some 1, some 1, some 1, some 1) := by decide

end JV.Props.C07X
