/-
  C05X — the translator tie for C05: the stack buffers of write_number.hpp and the snprintf calls that fill them,
  REGENERATED from the C++ source on every run (tools/extract.py → JV/Extracted/Buffers.lean: every `char name[N];`,
  every `snprintf(target, sizeof(target), "fmt", precision, val)` with the function it is in, the precision the code passes,
  and whether the returned length is compared with `sizeof(target)` before the target is read).

  The length snprintf needs is libc's business; what is assumed about it is written down as `worstLen` (the longest text the three
  conversions can produce for ANY binary64 — finite, infinite or NaN — at precision p ≥ 1, derived from C17 7.21.6.1 and the binary64
  exponent range; not counting the terminating NUL). Under that assumption the theorems say, for every call site found in the source:
  the result fits the buffer it is written to, or the code checks the returned length before reading the buffer.
  Enlarging a format's output (another conversion, a larger fixed precision), shrinking a buffer or dropping a length check in the
  source changes the generated table and breaks the theorem.

  History: at the pinned commit the statement was false for the two `%1.*f` calls of dtoa_fixed(…, std::false_type) (precision 15 / 17 into
  `char buffer[100]`, no length check; reached from write_double with float_chars_format::fixed and precision 0 whenever Grisu3
  declines the value; up to 326 / 328 characters). Witness `fz enc ff | [ d708fe3e33b63c1c9 ]` = json(1.5843229051584129e+234) dumped
  with float_format fixed: ASan stack-buffer-overflow READ in dump_buffer. Finding D81, the residue of D2; fixed in /repo 962f882
  (`char buffer[352]`), after which `snprintf_results_fit` holds at full strength: 1 + 309 + 1 + 17 + 1 = 329 ≤ 352.
-/
import JV.Extracted.Lookup
import JV.Extracted.Buffers
namespace JV.Props.C05X
open JV JV.Extracted

/-- longest output (characters, without the NUL) of `snprintf(…, fmt, p, (double)v)` over all binary64 `v`, for p ≥ 1 — ASSUMED of libc:
      %1.*e   [-]d.<p digits>e±ddd            1 + 1 + 1 + p + 1 + 1 + 3   (binary64 decimal exponents have at most three digits)
      %1.*g   style e with p-1 digits after the point (p + 7), or style f for exponents -4 … p-1: at most "-0.000" + p digits (p + 6)
      %1.*f   [-]<up to 309 digits>.<p digits>  (DBL_MAX = 1.797…e308 has 309 integer digits)
    inf / nan are 3–4 characters -/
def worstLen (fmt : String) (p : Nat) : Option Nat :=
  if fmt = "%1.*e" then some (p + 8)
  else if fmt = "%1.*g" then some (p + 7)
  else if fmt = "%1.*f" then some (p + 311)
  else none

structure Site where
  fn : String
  target : String
  size : Nat          -- 0: not a stack array (heap buffer sized from snprintf's own answer)
  fmt : String
  prec : Nat
  userPrec : Bool     -- the precision is the member `precision_` (caller supplied)
  checked : Bool      -- `length < sizeof(target)` is tested before the target is read
  deriving DecidableEq, Repr

def sites : List Site := snprintfCalls.map fun (a, b, c, d, e, f, g) => ⟨a, b, c, d, e, f, g⟩

/-- the text fits the stack buffer together with its NUL -/
def fits (s : Site) : Bool := !s.userPrec && match worstLen s.fmt s.prec with
  | some n => n + 1 ≤ s.size
  | none => false

/-- only the three conversions for which `worstLen` is stated are used, each with the `*` precision argument -/
theorem formats_are_known : ∀ s ∈ sites, (worstLen s.fmt s.prec).isSome = true := by decide

/-- the precisions the code itself chooses are digits10 and max_digits10 of binary64 -/
theorem fixed_precisions : ∀ s ∈ sites, s.userPrec = false → (s.prec = 15 ∨ s.prec = 17) := by decide

/-- %e and %g at the code's own precisions fit their 100-byte buffers (26 and 25 bytes needed at most) -/
theorem scientific_and_general_fit :
    ∀ s ∈ sites, s.userPrec = false → (s.fmt = "%1.*e" ∨ s.fmt = "%1.*g") → fits s = true := by decide

/-- every call with a caller-supplied precision into a stack buffer checks the returned length before reading the buffer … -/
theorem user_precision_sites_are_checked : ∀ s ∈ sites, s.userPrec = true → s.size ≠ 0 → s.checked = true := by decide

/-- … and every call into a heap buffer (size unknown statically) re-runs a checked stack call of the same function and format
    (the buffer is sized from that call's answer) -/
theorem heap_sites_follow_a_checked_site :
    ∀ s ∈ sites, s.size = 0 → ∃ t ∈ sites, t.fn = s.fn ∧ t.fmt = s.fmt ∧ t.size ≠ 0 ∧ t.checked = true ∧ t.userPrec = s.userPrec := by decide

/-- no snprintf result is read past its buffer: every call into a stack buffer either cannot produce more than the buffer holds
    (for any binary64 value) or has its returned length compared with `sizeof(buffer)` before the buffer is read -/
theorem snprintf_results_fit : ∀ s ∈ sites, s.size ≠ 0 → (s.checked = true ∨ fits s = true) := by decide

/-- in particular %f at the code's own precisions (dtoa_fixed, Grisu3 fallback): sign + 309 digits + '.' + 17 digits + NUL = 329 bytes (D81) -/
theorem fixed_format_fits :
    ∀ s ∈ sites, s.userPrec = false → s.fmt = "%1.*f" → fits s = true ∧ 1 + 309 + 1 + s.prec + 1 ≤ s.size := by decide

/-- precision requested through json_options is an int8_t (≤ 127): for %e and %g the 200-byte buffer of write_double then always
    suffices (136 and 135 bytes), so the heap path is only ever taken by %f — or by callers constructing write_double directly -/
theorem options_precision_e_g_fit_200 :
    optionsPrecisionType = "int8_t" ∧ optionsPrecisionDefault = 0
    ∧ ∀ s ∈ sites, s.userPrec = true → s.size ≠ 0 → (s.fmt = "%1.*e" ∨ s.fmt = "%1.*g") →
        ∀ p, p ≤ 127 → (worstLen s.fmt p).map (fun n => decide (n + 1 ≤ s.size)) = some true := by decide +kernel

/-- every stack target of a snprintf is one of the declared `char name[N]` arrays of the same function, with that N -/
theorem targets_are_declared_buffers : ∀ s ∈ sites, s.size ≠ 0 → (s.fn, s.target, s.size) ∈ charBuffers := by decide

/-- Grisu3 writes at most 17 digits and a NUL into the buffers of the `true_type` overloads (no snprintf there): they are large enough -/
theorem grisu_buffers_hold_17_digits :
    ∀ b ∈ charBuffers, (b.1 = "dtoa_general/true_type" ∨ b.1 = "dtoa_fixed/true_type") → lookup numericLimits "max_digits10" = some 17 ∧ 17 + 1 ≤ b.2.2 := by
  decide

end JV.Props.C05X
