import JV.Spec.Rfc8259
namespace JV.Props.C03
theorem placeholder : True := trivial
end JV.Props.C03
