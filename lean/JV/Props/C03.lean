/-
  C03 — decoding does not depend on how the input is delivered.

  Proved here (Model: JV.Model.StreamSource = `stream_source` of source.hpp, tied to the real class by
  the `src` correspondence stream): for EVERY chunk size k ≥ 1 and every sequence of requests, what a
  stream-backed source hands to a decoder is exactly what the flat byte sequence would hand it —
  `read n` returns the next n bytes whenever n bytes remain and comes back short otherwise, `peek`
  shows the next byte, `read_chunk` returns a prefix of what remains, `eof()` is never true early.
  Hence every decoder written against the source interface (JSON reader, CBOR/MessagePack/UBJSON/
  BSON parsers) sees the same bytes from a stream with any internal buffer size as from a buffer.

  Also proved here (Model: JV.Model.JsonParser = json_parser.hpp as it behaves when it is handed one character per update(), so that every
  "Buffer exhausted" save/resume branch is a state of the model): however a text is cut into pieces, feeding the pieces and then signalling
  end of input gives the outcome of the whole text - same events, same error code, same final state (`json_chunk_independent`,
  `json_split_independent`), and nothing after an error is looked at (`json_error_is_final`). The REAL parser is tied to that model under every
  chunking by the `parser-model-pieces` stream: after every delivered piece its suspended state (parse_state, number/string sub-state, level,
  state stack, buffer, code points - guarded hook `verif_inspect`) must be the model's state after the same prefix, and its outcome the
  model's; so the look-ahead fast paths and the resume code are exactly what the tie exercises. D1, D17, D23 were found there and repaired.

  NOT proved (decided per case on the real code by the `jt deliver` stream: every 2-way split, every uniform chunk size 1..7, random splits,
  readers, stream buffers 1/2/3/5/16, iterator source, pull cursor; outcomes must coincide): the cursor / reader glue around the parser, CSV
  chunking and the binary decoders under chunking. D21 is recorded.
-/
import JV.Proofs.StreamSource
import JV.Proofs.JsonParser
namespace JV.Props.C03
open JV Model Model.StreamSource

/-- a request the remaining input can satisfy returns exactly the next `n` bytes, whatever the chunk size -/
theorem stream_read_exact (s : St) (n : Nat) (hi : Inv s) (hn : n ≤ (pending s).length) :
    (read s n).1 = n ∧ (read s n).2.1 = (pending s).take n ∧ pending (read s n).2.2 = (pending s).drop n ∧ Inv (read s n).2.2 :=
  read_exact s n hi hn

/-- a request for more than remains comes back short -/
theorem stream_read_short (s : St) (n : Nat) (hi : Inv s) (hn : (pending s).length < n) : (read s n).1 < n :=
  read_short s n hi hn

theorem stream_peek (s : St) (hi : Inv s) :
    (peek s).1 = (pending s).head? ∧ pending (peek s).2 = pending s ∧ Inv (peek s).2 :=
  peek_spec s hi

theorem stream_read_chunk (s : St) (hi : Inv s) :
    (readChunk s).1 ++ pending (readChunk s).2 = pending s ∧ Inv (readChunk s).2 ∧ ((readChunk s).1 = [] → pending s = []) :=
  readChunk_spec s hi

theorem stream_eof_sound (s : St) (hi : Inv s) (h : eof s = true) : pending s = [] :=
  eof_sound s hi h

/-- a whole sequence of satisfiable reads over a stream with chunk size `k` returns the same byte
    strings as slicing the flat content, for every `k ≥ 1` -/
def readAll : St → List Nat → List Bytes
  | _, [] => []
  | s, n :: ns => (read s n).2.1 :: readAll (read s n).2.2 ns

def sliceAll : Bytes → List Nat → List Bytes
  | _, [] => []
  | bs, n :: ns => bs.take n :: sliceAll (bs.drop n) ns

theorem stream_refines_flat (content : Bytes) (k : Nat) (hk : 0 < k) (ns : List Nat) (hsum : ns.sum ≤ content.length) :
    readAll (init content k) ns = sliceAll content ns := by
  have key : ∀ (ns : List Nat) (s : St), Inv s → ns.sum ≤ (pending s).length → readAll s ns = sliceAll (pending s) ns := by
    intro ns
    induction ns with
    | nil => intro s _ _; rfl
    | cons n ns ih =>
      intro s hi hs
      simp only [List.sum_cons] at hs
      obtain ⟨_, h2, h3, h4⟩ := read_exact s n hi (by omega)
      simp only [readAll, sliceAll, h2]
      congr 1
      rw [← h3]
      apply ih _ h4
      rw [h3, List.length_drop]; omega
  have := key ns (init content k) (inv_init content k hk) (by simpa [pending, init] using hsum)
  simpa [pending, init] using this


/-! ### the JSON push parser (Model: JV.Model.JsonParser, tied state by state to json_parser.hpp by the `parser-model-pieces` stream) -/
/-- however a text is cut into pieces (any number of pieces, any sizes, empty pieces included), feeding the pieces one after the
    other and then signalling end of input gives the outcome of feeding the whole text: same events, same error code, same state -/
theorem json_chunk_independent (cfg : Model.JsonParser.Cfg) (chunks : List Bytes) : Model.JsonParser.runChunks cfg chunks = Model.JsonParser.run cfg chunks.flatten := by
  unfold Model.JsonParser.runChunks Model.JsonParser.run; rw [Model.JsonParser.feed_chunks]

/-- in particular for a two-way split at any offset -/
theorem json_split_independent (cfg : Model.JsonParser.Cfg) (text : Bytes) (i : Nat) :
    Model.JsonParser.runChunks cfg [text.take i, text.drop i] = Model.JsonParser.run cfg text := by
  rw [json_chunk_independent]; simp

/-- once an error is reported nothing that follows is looked at -/
theorem json_error_is_final (cfg : Model.JsonParser.Cfg) (s : Model.JsonParser.St) (more : Bytes) (h : s.err.isSome) : Model.JsonParser.feed cfg s more = s :=
  Model.JsonParser.feed_err cfg s more h

/-! ### non-vacuity -/
example : readAll (init [1, 2, 3, 4, 5, 6, 7] 3) [2, 4, 1] = [[1, 2], [3, 4, 5, 6], [7]] := by decide
example : (read (init [1, 2, 3] 2) 5).1 = 3 := by decide

example : (Model.JsonParser.runChunks ⟨8, false, false⟩ [[91, 49], [], [44, 50, 93]]).evs = (Model.JsonParser.run ⟨8, false, false⟩ [91, 49, 44, 50, 93]).evs ∧
    Model.JsonParser.accepted (Model.JsonParser.run ⟨8, false, false⟩ [91, 49, 44, 50, 93]) = true := by decide

end JV.Props.C03
