/-
  C01 — JSON text round-trip is lossless and canonical.

  Proved here, for every input:
  (a) the string-escaping core. Model JV.Model.JsonEscape = `escape_string` of json_encoders.hpp (tied to the real
      function by the `jt esc` correspondence stream, including its error behaviour on malformed UTF-8 and both option
      flags); Spec reader = JV.Spec.Rfc8259.parseChars (the `char` production of RFC 8259 §7). With
      escape_all_non_ascii off, for EVERY byte string the escaped text is read back by a strict RFC 8259 string reader as
      exactly the original bytes, under either setting of escape_solidus (`escape_unescape`, `escape_total`, `u4_decodes`).
  (b) the serializers. Model JV.Model.JsonEncode = `basic_compact_json_encoder` (`compact`, `compactS sol`) and
      `basic_json_encoder` (`pretty o`: indent_size, indent_char, new_line_chars, spaces_around_colon/comma,
      pad_inside_object_braces/array_brackets, all five line-split options with all three kinds, line_length_limit,
      escape_solidus), over the value type of the reference parser (numbers by their printed text). Both are tied to
      `dump` / `dump_pretty` byte for byte by the `encoder-model` correspondence stream (values restricted to integers,
      bigint-tagged big numbers, valid UTF-8 strings of every escape class, arrays, objects of json and ojson).
      * `compact_parses_back` / `compactS_parses_back`: parse(dump v) = v — the RFC 8259 reference parser, under ANY
        flags (comments, trailing commas) and any depth limit ≥ depth v, reads the compact text of every well-formed v
        (number literals are RFC 8259 numbers, strings and member names valid UTF-8; any nesting, duplicate and empty
        member names included) back as exactly v; hence the output is strict RFC 8259 (flags all off).
      * `compact_canonical`: dump(parse(dump v)) = dump v.
      * `pretty_only_adds_whitespace` (+ `_wf`, `_default`): for every option record whose new_line_chars and indent_char
        are RFC 8259 white space, deleting white space outside string literals from the indented text gives the compact text.
      * `pretty_parses_back`, `pretty_canonical`: parse(dump_pretty v) = v and dump_pretty(parse(dump_pretty v)) =
        dump_pretty v for the same option records (every combination of the layout options), any parser flags.
      Helper lemmas: Proofs/JsonNumberText (the number reader is local), Proofs/JsonEncodeParse, Proofs/JsonEncodeStrip,
      Proofs/JsonEncodeLoose (the parser reads every white-space-padded rendering back; the indenting encoder writes one).

  NOT proved (observed per case on the real code, see evidence): the statements are about the Lean models and the Lean
  reference parser — that the models ARE the C++ encoders is checked byte for byte on the generated inputs only, and
  jsoncons' own parser is compared with the reference (C02), not modelled; option records whose new_line_chars / indent_char
  are not white space (the library accepts them; the output is then not JSON) are outside the theorems;
  escape_all_non_ascii = true (\uXXXX and surrogate-pair arithmetic; the escaper model covers it and is tied, the read-back
  is judged by the Lean reference reader on every generated string incl. U+FFFF/U+10000 boundaries; the encoder model fixes
  it to false); number printing (C04: the literal is taken as given here); noesc-tagged strings, byte strings, half floats,
  non-finite doubles, bignum_format other than raw; jsoncons' own parser (C02 compares it with the reference).
-/
import JV.Proofs.JsonEscape
import JV.Proofs.JsonEncodeParse
import JV.Proofs.JsonEncodeStrip
import JV.Proofs.JsonEncodeLoose
namespace JV.Props.C01
open JV Model Model.JsonEscape Model.JsonEncode Spec.Rfc8259

/-- every byte string is escaped to text that a strict RFC 8259 string reader reads back as the original
    (escape_all_non_ascii = false, any escape_solidus; `e ++ "\"" ++ rest`: the reader stops at the closing quote) -/
theorem escape_unescape (sol : Bool) (s : Bytes) :
    ∃ e, escapeString false sol s = some e ∧
      ∀ rest, parseChars (e.length + 1) (e ++ 34 :: rest) = some (s, rest) := by
  obtain ⟨e, he, hr⟩ := escape_reads_back sol s s.length (Nat.le_refl _)
  exact ⟨e, he, fun rest => hr rest (e.length + 1) (Nat.le_refl _)⟩

/-- escaping never fails when escape_all_non_ascii is off (no UTF-8 decoding is attempted on bytes ≥ 0x80) -/
theorem escape_total (sol : Bool) (s : Bytes) : (escapeString false sol s).isSome = true := by
  obtain ⟨e, he, _⟩ := escape_unescape sol s
  simp [he]

/-- the four-digit form written for control characters decodes to the same code unit -/
theorem u4_decodes (cp : Nat) (h : cp < 65536) (rest : Bytes) :
    hex4 ((u4 cp).drop 2 ++ rest) = some (cp, rest) := by
  simpa [u4] using hex4_u4 cp h rest

/-! ### non-vacuity: every escape class at once -/
example : escapeString false true [34, 92, 47, 8, 12, 10, 13, 9, 1, 127, 65, 195, 169] =
    some [92, 34, 92, 92, 92, 47, 92, 98, 92, 102, 92, 110, 92, 114, 92, 116,
          92, 117, 48, 48, 48, 49, 92, 117, 48, 48, 55, 70, 65, 195, 169] := by decide
example : escapeString true false [240, 159, 152, 128] = some [92, 117, 68, 56, 51, 68, 92, 117, 68, 69, 48, 48] := by decide
example : escapeString true false [195] = none := by decide

/-! ### the serializers (Model.JsonEncode) -/

/-- parse(dump v) = v: the RFC 8259 reference parser reads the compact encoder's text back as the value, for every
    well-formed v of any nesting, under any parser flags, provided the depth limit admits v -/
theorem compact_parses_back (fl : Flags) (v : JT) (hw : WF v) (hd : JsonEncode.depth v ≤ fl.maxDepth) :
    parseText fl (compact v) = some v :=
  compactS_parses_back fl false v hw hd

/-- the same under either escape_solidus setting -/
theorem compactS_parses_back (fl : Flags) (sol : Bool) (v : JT) (hw : WF v) (hd : JsonEncode.depth v ≤ fl.maxDepth) :
    parseText fl (compactS sol v) = some v :=
  JsonEncode.compactS_parses_back fl sol v hw hd

/-- dump(parse(dump v)) = dump v, byte for byte -/
theorem compact_canonical (fl : Flags) (v : JT) (hw : WF v) (hd : JsonEncode.depth v ≤ fl.maxDepth) :
    (parseText fl (compact v)).map compact = some (compact v) := by
  rw [compact_parses_back fl v hw hd]; rfl

/-- the indenting encoder adds only white space outside string literals, whatever the layout options (indentation, new-line
    characters, spaces around ':' and ',', padding, line splits, line length limit); number texts without white space or quote -/
theorem pretty_only_adds_whitespace (o : PrettyOpts) (ho : WsLayout o) (v : JT) (h : plainNums v = true) :
    stripWsOutsideStrings (pretty o v) = compactS o.solidus v :=
  strip_pretty o ho v h

theorem pretty_only_adds_whitespace_wf (o : PrettyOpts) (ho : WsLayout o) (v : JT) (hw : WF v) :
    stripWsOutsideStrings (pretty o v) = compactS o.solidus v :=
  strip_pretty o ho v (wf_plainNums v hw)

/-- with the default options of json_options -/
theorem pretty_only_adds_whitespace_default (v : JT) (hw : WF v) : stripWsOutsideStrings (pretty {} v) = compact v :=
  strip_pretty {} ⟨by decide, by decide⟩ v (wf_plainNums v hw)

/-- so the indented text, white space outside strings removed, parses back to v -/
theorem pretty_stripped_parses_back (fl : Flags) (o : PrettyOpts) (ho : WsLayout o) (v : JT) (hw : WF v)
    (hd : JsonEncode.depth v ≤ fl.maxDepth) : parseText fl (stripWsOutsideStrings (pretty o v)) = some v := by
  rw [pretty_only_adds_whitespace_wf o ho v hw]
  exact JsonEncode.compactS_parses_back fl o.solidus v hw hd

/-- parse(dump_pretty v) = v: the reference parser reads the indenting encoder's text back as the value, for every layout
    (indent, new-line characters, spaces, padding, the five line-split options, line length limit) and any parser flags -/
theorem pretty_parses_back (fl : Flags) (o : PrettyOpts) (ho : WsLayout o) (v : JT) (hw : WF v)
    (hd : JsonEncode.depth v ≤ fl.maxDepth) : parseText fl (pretty o v) = some v :=
  JsonEncode.pretty_parses_back fl o ho v hw hd

/-- dump_pretty(parse(dump_pretty v)) = dump_pretty v, byte for byte -/
theorem pretty_canonical (fl : Flags) (o : PrettyOpts) (ho : WsLayout o) (v : JT) (hw : WF v)
    (hd : JsonEncode.depth v ≤ fl.maxDepth) : (parseText fl (pretty o v)).map (pretty o) = some (pretty o v) := by
  rw [pretty_parses_back fl o ho v hw hd]; rfl

/-! ### non-vacuity: {"a":[1,-2.5e3,"x\n",{"b":null}],"k":true} -/
def exDoc : JT :=
  .obj [([97], .arr [.num [49], .num [45, 50, 46, 53, 101, 51], .str [120, 10], .obj [([98], .null)]]), ([107], .bool true)]

example : WF exDoc := by decide
example : JsonEncode.depth exDoc = 3 := by decide
example : compact exDoc =
    [123, 34, 97, 34, 58, 91, 49, 44, 45, 50, 46, 53, 101, 51, 44, 34, 120, 92, 110, 34, 44, 123, 34, 98, 34, 58, 110, 117, 108, 108,
     125, 93, 44, 34, 107, 34, 58, 116, 114, 117, 101, 125] := by decide
example : parseText ⟨false, false, 3⟩ (compact exDoc) = some exDoc :=
  compact_parses_back _ _ (by decide) (by decide)
/-- default options: four spaces, one member / element per line, ", " and ": " -/
example : pretty {} exDoc =
    [123, 10, 32, 32, 32, 32, 34, 97, 34, 58, 32, 91, 10, 32, 32, 32, 32, 32, 32, 32, 32, 49, 44, 32, 10, 32, 32, 32, 32, 32, 32, 32, 32,
     45, 50, 46, 53, 101, 51, 44, 32, 10, 32, 32, 32, 32, 32, 32, 32, 32, 34, 120, 92, 110, 34, 44, 32, 10, 32, 32, 32, 32, 32, 32, 32, 32,
     123, 10, 32, 32, 32, 32, 32, 32, 32, 32, 32, 32, 32, 32, 34, 98, 34, 58, 32, 110, 117, 108, 108, 10, 32, 32, 32, 32, 32, 32, 32, 32,
     125, 10, 32, 32, 32, 32, 93, 44, 32, 10, 32, 32, 32, 32, 34, 107, 34, 58, 32, 116, 114, 117, 101, 10, 125] := by decide
/-- same_line splits, line_length_limit 12, CR LF, padded brackets, " ," commas (checked against dump_pretty) -/
example : pretty { indentSize := 2, colon := 0, comma := 2, padArr := true, aa := 2, oa := 2, ao := 2, oo := 2, limit := 12, newLine := [13, 10] } exDoc =
    [123, 13, 10, 32, 32, 34, 97, 34, 58, 91, 32, 49, 32, 44, 45, 50, 46, 53, 101, 51, 32, 44, 13, 10, 32, 32, 32, 32, 34, 120, 92, 110, 34,
     32, 44, 13, 10, 32, 32, 32, 32, 123, 34, 98, 34, 58, 110, 117, 108, 108, 125, 13, 10, 32, 32, 32, 93, 32, 44, 13, 10, 32, 32, 34, 107,
     34, 58, 116, 114, 117, 101, 13, 10, 125] := by decide
example : parseText ⟨true, true, 3⟩
    (pretty { indentSize := 2, colon := 0, comma := 2, padArr := true, aa := 2, oa := 2, ao := 2, oo := 2, limit := 12, newLine := [13, 10] } exDoc) =
    some exDoc :=
  pretty_parses_back _ _ (by decide) _ (by decide) (by decide)
example : stripWsOutsideStrings (pretty {} exDoc) = compact exDoc :=
  pretty_only_adds_whitespace_default exDoc (by decide)
/-- white space inside a string literal is kept by the stripping function -/
example : stripWsOutsideStrings [91, 32, 34, 32, 92, 34, 32, 34, 32, 93] = [91, 34, 32, 92, 34, 32, 34, 93] := by decide
/-- the hypotheses matter: an ill-formed number text is not read back -/
example : parseText ⟨false, false, 8⟩ (compact (.arr [.num [48, 49]])) = none := by decide

end JV.Props.C01
