/-
  C01 — JSON text round-trip is lossless and canonical.

  Proved here: the string-escaping core. Model JV.Model.JsonEscape = `escape_string` of
  json_encoders.hpp (tied to the real function by the `jt esc` correspondence stream, including its
  error behaviour on malformed UTF-8 and both option flags); Spec reader = JV.Spec.Rfc8259.parseChars
  (the `char` production of RFC 8259 §7). With escape_all_non_ascii off, for EVERY byte string the
  escaped text is read back by a strict RFC 8259 string reader as exactly the original bytes, under
  either setting of escape_solidus.

  Decided per case on the real code, not proved (see evidence): escape_all_non_ascii = true
  (\uXXXX and surrogate-pair arithmetic; the model covers it and is tied, the read-back is judged by
  the Lean reference reader on every generated string incl. U+FFFF/U+10000 boundaries), the compact
  and pretty encoders' layout (pretty = compact + white space is checked textually for every option
  record drawn), number printing (C04), and the full document round trip parse(dump v) = v,
  dump(parse(dump v)) = dump v.
-/
import JV.Proofs.JsonEscape
namespace JV.Props.C01
open JV Model Model.JsonEscape Spec.Rfc8259

/-- every byte string is escaped to text that a strict RFC 8259 string reader reads back as the original
    (escape_all_non_ascii = false, any escape_solidus; `e ++ "\"" ++ rest`: the reader stops at the closing quote) -/
theorem escape_unescape (sol : Bool) (s : Bytes) :
    ∃ e, escapeString false sol s = some e ∧
      ∀ rest, parseChars (e.length + 1) (e ++ 34 :: rest) = some (s, rest) := by
  obtain ⟨e, he, hr⟩ := escape_reads_back sol s s.length (Nat.le_refl _)
  exact ⟨e, he, fun rest => hr rest (e.length + 1) (Nat.le_refl _)⟩

/-- escaping never fails when escape_all_non_ascii is off (no UTF-8 decoding is attempted on bytes ≥ 0x80) -/
theorem escape_total (sol : Bool) (s : Bytes) : (escapeString false sol s).isSome = true := by
  obtain ⟨e, he, _⟩ := escape_unescape sol s
  simp [he]

/-- the four-digit form written for control characters decodes to the same code unit -/
theorem u4_decodes (cp : Nat) (h : cp < 65536) (rest : Bytes) :
    hex4 ((u4 cp).drop 2 ++ rest) = some (cp, rest) := by
  simpa [u4] using hex4_u4 cp h rest

/-! ### non-vacuity: every escape class at once -/
example : escapeString false true [34, 92, 47, 8, 12, 10, 13, 9, 1, 127, 65, 195, 169] =
    some [92, 34, 92, 92, 92, 47, 92, 98, 92, 102, 92, 110, 92, 114, 92, 116,
          92, 117, 48, 48, 48, 49, 92, 117, 48, 48, 55, 70, 65, 195, 169] := by decide
example : escapeString true false [240, 159, 152, 128] = some [92, 117, 68, 56, 51, 68, 92, 117, 68, 69, 48, 48] := by decide
example : escapeString true false [195] = none := by decide

end JV.Props.C01
