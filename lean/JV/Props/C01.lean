import JV.Spec.Rfc8259
namespace JV.Props.C01
theorem placeholder : True := trivial
end JV.Props.C01
