/-
  C09 — `basic_json` behaves as a value-semantic JSON container.

  The model (`JV.Model.Dom`) is the mathematical object the property names: a pool of values, arrays as sequences and
  objects as finite maps held as key-ordered (`json`) association lists. The correspondence check runs the same
  operation sequences through the real `basic_json` and through `Model.Dom.run`, comparing every observable result
  and every slot of the pool at the end — so what is proved here about the model is what the implementation was
  observed to do on each compared sequence.

  Theorems, for every pool, object, key and value:
    * copies are independent: an operation addressed to slot `a` never changes another slot (`step_frame`), so after
      `copy a b` followed by any mutation of `a`, `b` still holds what it held (`copy_then_mutate_independent`);
    * swap exchanges and self-assignment is the identity (`swap_exchanges`, `selfAssign_identity`);
    * the object operations are the finite-map operations and keep "sorted, unique keys" (`insert_or_assign_is_map_update`,
      `try_emplace_is_insert_if_absent`, `erase_is_map_remove`, `merge_keeps_existing_members`, `merge_keeps_invariant`);
    * the integer comparison arms (int64/uint64 in all four combinations, with the C++ unsigned conversions written out)
      are the order of the stored numbers, hence reflexive, antisymmetric, transitive and consistent with equality
      (`int_compare_is_order` and corollaries).
-/
import JV.Proofs.Dom
import JV.Proofs.Compare
namespace JV
namespace Props
namespace C09
open Model Model.Dom Assoc

/-! ### copies are independent values -/

/-- which slot an operation may write -/
def target : Op → List Nat
  | .new s _ => [s]
  | .copy a _ => [a]
  | .swap a b => [a, b]
  | .selfAssign _ => []
  | .set a _ _ => [a] | .emplace a _ _ => [a] | .erase a _ => [a]
  | .find _ _ => [] | .contains _ _ => [] | .count _ _ => [] | .at _ _ => [] | .size _ => [] | .isEmpty _ => []
  | .clear a => [a] | .push a _ => [a] | .insAt a _ _ => [a] | .eraseAt a _ => [a] | .eraseRange a _ _ => [a]
  | .resize a _ => [a] | .resizeV a _ _ => [a] | .atIdx _ _ => []
  | .merge a _ => [a] | .mergeUpd a _ => [a] | .rangeIns a _ => [a] | .iter _ => []

theorem getSlot_setSlot_ne (pool : List JVal) {i j : Nat} (v : JVal) (h : j ≠ i) :
    getSlot (setSlot pool i v) j = getSlot pool j := by
  simp [getSlot, setSlot, List.getD, List.getElem?_set_ne (Ne.symm h)]

/-- frame rule: a slot that is not the operation's target holds the same value afterwards — there is no aliasing
    between slots, in particular none between a value and its copy. -/
theorem step_frame (ordered : Bool) (pool : List JVal) (op : Op) (j : Nat) (hj : j ∉ target op) :
    getSlot (step ordered pool op).2 j = getSlot pool j := by
  cases op <;> simp only [target, List.mem_cons, List.mem_nil_iff, List.not_mem_nil, or_false, not_or, not_false_eq_true] at hj <;>
    simp only [step] <;> (try rfl)
  case new s v => exact getSlot_setSlot_ne _ _ hj
  case copy a b => exact getSlot_setSlot_ne _ _ hj
  case swap a b => rw [getSlot_setSlot_ne _ _ hj.2, getSlot_setSlot_ne _ _ hj.1]
  all_goals (repeat' split) <;> first | rfl | exact getSlot_setSlot_ne _ _ hj

theorem getSlot_setSlot_self (pool : List JVal) {i : Nat} (v : JVal) (h : i < pool.length) :
    getSlot (setSlot pool i v) i = v := by
  simp [getSlot, setSlot, List.getD, h]

/-- after `a = b` (copy construction / assignment / move from a temporary copy), `a` holds b's value … -/
theorem copy_takes_value (ordered : Bool) (pool : List JVal) (a b : Nat) (ha : a < pool.length) :
    getSlot (step ordered pool (.copy a b)).2 a = getSlot pool b := by
  simp only [step]; exact getSlot_setSlot_self _ _ ha

/-- … and any later operation on `a` leaves `b` exactly as it was: the copy shares nothing with its source. -/
theorem copy_then_mutate_independent (ordered : Bool) (pool : List JVal) (a b : Nat) (op : Op) (hab : b ≠ a)
    (hop : target op = [a]) :
    getSlot (step ordered (step ordered pool (.copy a b)).2 op).2 b = getSlot pool b := by
  rw [step_frame ordered _ op b (by rw [hop]; simpa using hab)]
  exact step_frame ordered pool (.copy a b) b (by simpa [target] using hab)

theorem swap_exchanges (ordered : Bool) (pool : List JVal) (a b : Nat) (ha : a < pool.length) (hb : b < pool.length) :
    getSlot (step ordered pool (.swap a b)).2 a = getSlot pool b ∧ getSlot (step ordered pool (.swap a b)).2 b = getSlot pool a := by
  simp only [step]
  constructor
  · by_cases e : a = b
    · subst e; rw [getSlot_setSlot_self _ _ (by simpa [setSlot] using ha)]
    · rw [getSlot_setSlot_ne _ _ e, getSlot_setSlot_self _ _ ha]
  · exact getSlot_setSlot_self _ _ (by simpa [setSlot] using hb)

theorem selfAssign_identity (ordered : Bool) (pool : List JVal) (a : Nat) : (step ordered pool (.selfAssign a)).2 = pool := rfl

/-! ### objects are finite maps with sorted unique keys -/

theorem insert_or_assign_is_map_update (k : Bytes) (v : JVal) (ms : List (Bytes × JVal)) (hs : Sorted ms) :
    Sorted (insertOrAssign false k v ms) ∧ find k (insertOrAssign false k v ms) = some v ∧
      ∀ k', k' ≠ k → find k' (insertOrAssign false k v ms) = find k' ms := insertOrAssign_map k v ms hs

theorem try_emplace_is_insert_if_absent (k : Bytes) (v : JVal) (ms : List (Bytes × JVal)) (hs : Sorted ms) :
    Sorted (tryEmplace false k v ms) ∧ find k (tryEmplace false k v ms) = some ((find k ms).getD v) ∧
      ∀ k', k' ≠ k → find k' (tryEmplace false k v ms) = find k' ms := tryEmplace_map k v ms hs

theorem erase_is_map_remove (k : Bytes) (ms : List (Bytes × JVal)) (hs : Sorted ms) :
    Sorted (erase k ms) ∧ find k (erase k ms) = none ∧ ∀ k', k' ≠ k → find k' (erase k ms) = find k' ms := erase_map k ms hs

theorem merge_keeps_invariant (src ms : List (Bytes × JVal)) (hs : Sorted ms) : Sorted (mergeInto false ms src) :=
  mergeInto_sorted src ms hs

theorem merge_keeps_existing_members (k : Bytes) (x : JVal) (src ms : List (Bytes × JVal)) (hs : Sorted ms)
    (h : find k ms = some x) : find k (mergeInto false ms src) = some x := mergeInto_keeps_existing k x src ms hs h

/-- sorted unique keys ⇒ no key occurs twice (what iteration shows) -/
theorem sorted_keys_nodup (ms : List (Bytes × JVal)) (hs : Sorted ms) : (keys ms).Nodup := sorted_nodup hs

/-! ### the integer comparison is the order of the numbers -/

open Model.Compare in
theorem int_compare_is_order (a b : Stored) (ha : a.WF) (hb : b.WF) :
    compareStored a b = (if a.val = b.val then 0 else if a.val < b.val then -1 else 1) := compare_spec a b ha hb

open Model.Compare in
theorem int_compare_refl (a : Stored) (ha : a.WF) : compareStored a a = 0 := by
  rw [compare_spec a a ha ha]; simp

open Model.Compare in
theorem int_compare_antisymm (a b : Stored) (ha : a.WF) (hb : b.WF) : compareStored b a = - compareStored a b := by
  rw [compare_spec a b ha hb, compare_spec b a hb ha]
  by_cases e : a.val = b.val
  · simp [e]
  · have e' : ¬ b.val = a.val := fun h => e h.symm
    by_cases l : a.val < b.val
    · have : ¬ b.val < a.val := by omega
      simp [e, e', l, this]
    · have : b.val < a.val := by omega
      simp [e, e', l, this]

open Model.Compare in
theorem int_compare_trans (a b c : Stored) (ha : a.WF) (hb : b.WF) (hc : c.WF)
    (h1 : compareStored a b < 0) (h2 : compareStored b c < 0) : compareStored a c < 0 := by
  rw [compare_spec a b ha hb] at h1
  rw [compare_spec b c hb hc] at h2
  rw [compare_spec a c ha hc]
  have l1 : a.val < b.val := by
    by_cases e : a.val = b.val
    · simp [e] at h1
    · by_cases l : a.val < b.val
      · exact l
      · simp [e, l] at h1
  have l2 : b.val < c.val := by
    by_cases e : b.val = c.val
    · simp [e] at h2
    · by_cases l : b.val < c.val
      · exact l
      · simp [e, l] at h2
  have e : ¬ a.val = c.val := by omega
  have l : a.val < c.val := by omega
  simp [e, l]

open Model.Compare in
/-- equality of the comparison is equality of the numbers, whatever the storage kinds -/
theorem int_compare_eq_iff (a b : Stored) (ha : a.WF) (hb : b.WF) : compareStored a b = 0 ↔ a.val = b.val := by
  rw [compare_spec a b ha hb]
  by_cases e : a.val = b.val
  · simp [e]
  · by_cases l : a.val < b.val <;> simp [e, l]

/-! non-vacuity: the hypotheses are met by concrete states -/
example : Sorted ([([97], JVal.null), ([98], JVal.bool true)] : List (Bytes × JVal)) := ⟨by decide, trivial⟩
example : (Model.Compare.Stored.i64 (-1)).WF ∧ (Model.Compare.Stored.u64 (2 ^ 64 - 1)).WF := by
  constructor <;> simp [Model.Compare.Stored.WF]
example : Model.Compare.compareStored (.i64 (-1)) (.u64 (2 ^ 64 - 1)) = -1 := by decide

end C09
end Props
end JV
