/-
  C09 — `basic_json` behaves as a value-semantic JSON container.

  The model (`JV.Model.Dom`) is the mathematical object the property names: a pool of values, arrays as sequences and
  objects as finite maps held as key-ordered (`json`) association lists. The correspondence check runs the same
  operation sequences through the real `basic_json` and through `Model.Dom.run`, comparing every observable result
  and every slot of the pool at the end — so what is proved here about the model is what the implementation was
  observed to do on each compared sequence.

  Theorems, for every pool, object, key and value:
    * copies are independent: an operation addressed to slot `a` never changes another slot (`step_frame`), so after
      `copy a b` followed by any mutation of `a`, `b` still holds what it held (`copy_then_mutate_independent`);
    * swap exchanges and self-assignment is the identity (`swap_exchanges`, `selfAssign_identity`);
    * the object operations are the finite-map operations and keep "sorted, unique keys" (`insert_or_assign_is_map_update`,
      `try_emplace_is_insert_if_absent`, `erase_is_map_remove`, `merge_keeps_existing_members`, `merge_keeps_invariant`);
    * the integer comparison arms (int64/uint64 in all four combinations, with the C++ unsigned conversions written out)
      are the order of the stored numbers, hence reflexive, antisymmetric, transitive and consistent with equality
      (`int_compare_is_order` and corollaries).
    * the WHOLE of `basic_json::compare` (`JV.Model.Compare.compare` on `CVal`: every storage kind the switch has an arm for — null,
      bool, int64, uint64, `json()` empty_object, float64 and half_float as IEEE-754 bit patterns, short/long strings, byte strings,
      arrays, sorted objects — with the exact arm order, the kind-index fall-through defaults, `static_cast<double>(integer)` rounding
      written out on the bits, `r = a - b; r == 0 ? 0 : (r < 0.0 ? -1 : 1)` including its NaN / inf - inf behaviour, and the vector
      `==` / lexicographic `<` of arrays and objects; outside the model: number-tagged strings (finding D7, compared through
      `as_double()` of their text), `json_ref` storage and the `this == &rhs` shortcut) is tied to the real `compare()` and the six
      operators by the stream "compare-model" (`dom mcmp`, all ordered pairs of a 165-value boundary alphabet + generated nestings), and:
        - `compare_refl`, `compare_antisymm`: for values without NaN and without infinity (`finite`), `compare a a = 0` and
          `compare b a = - compare a b`; both fail with NaN (`nan_compares_greater_both_ways`); equal infinities compare equal
          since the repair D88 (`inf_equals_itself`; the theorems still exclude them only because `finite` was stated before it);
        - `eq_is_equivalence_partial`, `lt_is_strict_weak_order_partial`: on `dom L` — no NaN / infinity, no `json()` empty_object,
          stored integers within ±2^53, strings all short (≤ 13 bytes, L = false) or all long (L = true) — `==` is reflexive, symmetric
          and transitive, `<` is irreflexive and transitive, incomparability is `==` and is transitive, and `==` is a congruence
          for `<` (`compare_le_trans` is the one fact behind them: `compare a b ≤ 0` is transitive; containers by lifting through
          `vecCmp_le_trans`);
        - the full statements are FALSE of the code, each shown by a closed counterexample (reproduced on the real code by the
          op lines in the comments): `eq_not_transitive_beyond_2_53` (integers beyond 2^53 meet a double),
          `lt_cycle_through_empty_object` (`json()` has kind index 4, between uint64 = 3 and float64 = 5),
          `eq_not_congruent_empty_object` (`json() == json(json_object_arg)` but they order differently against every kind 5..12),
          `lt_cycle_short_long_strings` (short_str = 7 < byte_str, object, array = 12..14 < long_str = 15, while two strings compare
          as text), `lt_cycle_arrays_beyond_2_53`.
-/
import JV.Proofs.Dom
import JV.Proofs.Compare
import JV.Proofs.CompareOrder
namespace JV
namespace Props
namespace C09
open Model Model.Dom Assoc

/-! ### copies are independent values -/

/-- which slot an operation may write -/
def target : Op → List Nat
  | .new s _ => [s]
  | .copy a _ => [a]
  | .swap a b => [a, b]
  | .selfAssign _ => []
  | .set a _ _ => [a] | .emplace a _ _ => [a] | .erase a _ => [a]
  | .find _ _ => [] | .contains _ _ => [] | .count _ _ => [] | .at _ _ => [] | .size _ => [] | .isEmpty _ => []
  | .clear a => [a] | .push a _ => [a] | .insAt a _ _ => [a] | .eraseAt a _ => [a] | .eraseRange a _ _ => [a]
  | .resize a _ => [a] | .resizeV a _ _ => [a] | .atIdx _ _ => []
  | .merge a _ => [a] | .mergeUpd a _ => [a] | .rangeIns a _ => [a] | .iter _ => []

theorem getSlot_setSlot_ne (pool : List JVal) {i j : Nat} (v : JVal) (h : j ≠ i) :
    getSlot (setSlot pool i v) j = getSlot pool j := by
  simp [getSlot, setSlot, List.getD, List.getElem?_set_ne (Ne.symm h)]

/-- frame rule: a slot that is not the operation's target holds the same value afterwards — there is no aliasing
    between slots, in particular none between a value and its copy. -/
theorem step_frame (ordered : Bool) (pool : List JVal) (op : Op) (j : Nat) (hj : j ∉ target op) :
    getSlot (step ordered pool op).2 j = getSlot pool j := by
  cases op <;> simp only [target, List.mem_cons, List.mem_nil_iff, List.not_mem_nil, or_false, not_or, not_false_eq_true] at hj <;>
    simp only [step] <;> (try rfl)
  case new s v => exact getSlot_setSlot_ne _ _ hj
  case copy a b => exact getSlot_setSlot_ne _ _ hj
  case swap a b => rw [getSlot_setSlot_ne _ _ hj.2, getSlot_setSlot_ne _ _ hj.1]
  all_goals (repeat' split) <;> first | rfl | exact getSlot_setSlot_ne _ _ hj

theorem getSlot_setSlot_self (pool : List JVal) {i : Nat} (v : JVal) (h : i < pool.length) :
    getSlot (setSlot pool i v) i = v := by
  simp [getSlot, setSlot, List.getD, h]

/-- after `a = b` (copy construction / assignment / move from a temporary copy), `a` holds b's value … -/
theorem copy_takes_value (ordered : Bool) (pool : List JVal) (a b : Nat) (ha : a < pool.length) :
    getSlot (step ordered pool (.copy a b)).2 a = getSlot pool b := by
  simp only [step]; exact getSlot_setSlot_self _ _ ha

/-- … and any later operation on `a` leaves `b` exactly as it was: the copy shares nothing with its source. -/
theorem copy_then_mutate_independent (ordered : Bool) (pool : List JVal) (a b : Nat) (op : Op) (hab : b ≠ a)
    (hop : target op = [a]) :
    getSlot (step ordered (step ordered pool (.copy a b)).2 op).2 b = getSlot pool b := by
  rw [step_frame ordered _ op b (by rw [hop]; simpa using hab)]
  exact step_frame ordered pool (.copy a b) b (by simpa [target] using hab)

theorem swap_exchanges (ordered : Bool) (pool : List JVal) (a b : Nat) (ha : a < pool.length) (hb : b < pool.length) :
    getSlot (step ordered pool (.swap a b)).2 a = getSlot pool b ∧ getSlot (step ordered pool (.swap a b)).2 b = getSlot pool a := by
  simp only [step]
  constructor
  · by_cases e : a = b
    · subst e; rw [getSlot_setSlot_self _ _ (by simpa [setSlot] using ha)]
    · rw [getSlot_setSlot_ne _ _ e, getSlot_setSlot_self _ _ ha]
  · exact getSlot_setSlot_self _ _ (by simpa [setSlot] using hb)

theorem selfAssign_identity (ordered : Bool) (pool : List JVal) (a : Nat) : (step ordered pool (.selfAssign a)).2 = pool := rfl

/-! ### objects are finite maps with sorted unique keys -/

theorem insert_or_assign_is_map_update (k : Bytes) (v : JVal) (ms : List (Bytes × JVal)) (hs : Sorted ms) :
    Sorted (insertOrAssign false k v ms) ∧ find k (insertOrAssign false k v ms) = some v ∧
      ∀ k', k' ≠ k → find k' (insertOrAssign false k v ms) = find k' ms := insertOrAssign_map k v ms hs

theorem try_emplace_is_insert_if_absent (k : Bytes) (v : JVal) (ms : List (Bytes × JVal)) (hs : Sorted ms) :
    Sorted (tryEmplace false k v ms) ∧ find k (tryEmplace false k v ms) = some ((find k ms).getD v) ∧
      ∀ k', k' ≠ k → find k' (tryEmplace false k v ms) = find k' ms := tryEmplace_map k v ms hs

theorem erase_is_map_remove (k : Bytes) (ms : List (Bytes × JVal)) (hs : Sorted ms) :
    Sorted (erase k ms) ∧ find k (erase k ms) = none ∧ ∀ k', k' ≠ k → find k' (erase k ms) = find k' ms := erase_map k ms hs

theorem merge_keeps_invariant (src ms : List (Bytes × JVal)) (hs : Sorted ms) : Sorted (mergeInto false ms src) :=
  mergeInto_sorted src ms hs

theorem merge_keeps_existing_members (k : Bytes) (x : JVal) (src ms : List (Bytes × JVal)) (hs : Sorted ms)
    (h : find k ms = some x) : find k (mergeInto false ms src) = some x := mergeInto_keeps_existing k x src ms hs h

/-- sorted unique keys ⇒ no key occurs twice (what iteration shows) -/
theorem sorted_keys_nodup (ms : List (Bytes × JVal)) (hs : Sorted ms) : (keys ms).Nodup := sorted_nodup hs

/-! ### the integer comparison is the order of the numbers -/

open Model.Compare in
theorem int_compare_is_order (a b : Stored) (ha : a.WF) (hb : b.WF) :
    compareStored a b = (if a.val = b.val then 0 else if a.val < b.val then -1 else 1) := compare_spec a b ha hb

open Model.Compare in
theorem int_compare_refl (a : Stored) (ha : a.WF) : compareStored a a = 0 := by
  rw [compare_spec a a ha ha]; simp

open Model.Compare in
theorem int_compare_antisymm (a b : Stored) (ha : a.WF) (hb : b.WF) : compareStored b a = - compareStored a b := by
  rw [compare_spec a b ha hb, compare_spec b a hb ha]
  by_cases e : a.val = b.val
  · simp [e]
  · have e' : ¬ b.val = a.val := fun h => e h.symm
    by_cases l : a.val < b.val
    · have : ¬ b.val < a.val := by omega
      simp [e, e', l, this]
    · have : b.val < a.val := by omega
      simp [e, e', l, this]

open Model.Compare in
theorem int_compare_trans (a b c : Stored) (ha : a.WF) (hb : b.WF) (hc : c.WF)
    (h1 : compareStored a b < 0) (h2 : compareStored b c < 0) : compareStored a c < 0 := by
  rw [compare_spec a b ha hb] at h1
  rw [compare_spec b c hb hc] at h2
  rw [compare_spec a c ha hc]
  have l1 : a.val < b.val := by
    by_cases e : a.val = b.val
    · simp [e] at h1
    · by_cases l : a.val < b.val
      · exact l
      · simp [e, l] at h1
  have l2 : b.val < c.val := by
    by_cases e : b.val = c.val
    · simp [e] at h2
    · by_cases l : b.val < c.val
      · exact l
      · simp [e, l] at h2
  have e : ¬ a.val = c.val := by omega
  have l : a.val < c.val := by omega
  simp [e, l]

open Model.Compare in
/-- equality of the comparison is equality of the numbers, whatever the storage kinds -/
theorem int_compare_eq_iff (a b : Stored) (ha : a.WF) (hb : b.WF) : compareStored a b = 0 ↔ a.val = b.val := by
  rw [compare_spec a b ha hb]
  by_cases e : a.val = b.val
  · simp [e]
  · by_cases l : a.val < b.val <;> simp [e, l]

/-! ### the whole of `basic_json::compare` -/

section whole
open Model.Compare

/-- the integer arms of the whole model are the integer model of Part 1 -/
theorem compare_integer_arms (a b : Stored) :
    Compare.compare (match a with | .i64 v => .i64 v | .u64 v => .u64 v) (match b with | .i64 v => .i64 v | .u64 v => .u64 v) = compareStored a b := by
  cases a <;> cases b <;> simp [Compare.compare, compareStored, cmpII, cmpIU, cmpUI, cmpUU]

/-- `a == a` (two copies of a value) whenever the value holds no NaN and no infinity -/
theorem compare_refl (a : CVal) (ha : finite a = true) : Compare.compare a a = 0 := compare_refl_fin a ha

/-- `compare(b, a) = -compare(a, b)` whenever neither value holds a NaN or an infinity -/
theorem compare_antisymm (a b : CVal) (ha : finite a = true) (hb : finite b = true) : Compare.compare b a = - Compare.compare a b :=
  compare_antisymm_fin a b ha hb

-- FULL STATEMENT (false): ∀ a, compare a a = 0   and   ∀ a b, compare b a = - compare a b
/-- NaN: `r = a - b` is NaN, `r == 0` and `r < 0.0` are both false, so compare() answers 1 in both directions. `dom mcmp d7ff8000000000000 d3ff0000000000000` -/
theorem nan_compares_greater_both_ways :
    Compare.compare (.dbl 0x7ff8000000000000) (.dbl 0x3ff0000000000000) = 1 ∧ Compare.compare (.dbl 0x3ff0000000000000) (.dbl 0x7ff8000000000000) = 1 := by
  simp only [Compare.compare]; decide

/-- two values holding the same infinity are equal (they were not before the repair D88: inf - inf is NaN), and -inf < +inf.
    `dom mcmp d7ff0000000000000 d7ff0000000000000` -/
theorem inf_equals_itself : opEq (.dbl 0x7ff0000000000000) (.dbl 0x7ff0000000000000) = true ∧
    opEq (.dbl 0xfff0000000000000) (.dbl 0xfff0000000000000) = true ∧
    Compare.compare (.dbl 0xfff0000000000000) (.dbl 0x7ff0000000000000) = -1 := by
  simp only [opEq, Compare.compare]; decide

/-- the total preorder behind everything below: on `dom L`, `compare a b ≤ 0` is transitive -/
theorem compare_le_is_transitive (L : Bool) (a b c : CVal) (da : dom L a = true) (db : dom L b = true) (dc : dom L c = true)
    (h1 : Compare.compare a b ≤ 0) (h2 : Compare.compare b c ≤ 0) : Compare.compare a c ≤ 0 := compare_le_trans L a b c da db dc h1 h2

-- FULL STATEMENT (false, see the counterexamples below): for all a b c,  a == a,  a == b → b == a,  a == b → b == c → a == c
/-- `operator==` is an equivalence relation on `dom L` -/
theorem eq_is_equivalence_partial (L : Bool) :
    (∀ a, dom L a = true → opEq a a = true) ∧
    (∀ a b, dom L a = true → dom L b = true → opEq a b = true → opEq b a = true) ∧
    (∀ a b c, dom L a = true → dom L b = true → dom L c = true → opEq a b = true → opEq b c = true → opEq a c = true) := by
  refine ⟨?_, ?_, ?_⟩
  · intro a da
    simp [opEq, compare_refl_fin a (dom_finite L a da)]
  · intro a b da db h
    have := compare_antisymm_fin a b (dom_finite L a da) (dom_finite L b db)
    simp only [opEq, beq_iff_eq] at *
    omega
  · intro a b c da db dc h1 h2
    simp only [opEq, beq_iff_eq] at *
    have fa := dom_finite L a da
    have fb := dom_finite L b db
    have fc := dom_finite L c dc
    have t1 := compare_le_trans L a b c da db dc (by omega) (by omega)
    have s1 := compare_antisymm_fin a b fa fb
    have s2 := compare_antisymm_fin b c fb fc
    have s3 := compare_antisymm_fin a c fa fc
    have t2 := compare_le_trans L c b a dc db da (by omega) (by omega)
    omega

-- FULL STATEMENT (false, see the counterexamples below): for all a b c,  ¬ a < a,  a < b → b < c → a < c,
--   (¬ a < b ∧ ¬ b < a) → (¬ b < c ∧ ¬ c < b) → (¬ a < c ∧ ¬ c < a),  and a == b ↔ (¬ a < b ∧ ¬ b < a)
/-- `operator<` is a strict weak ordering on `dom L`, and its incomparability relation is `operator==` -/
theorem lt_is_strict_weak_order_partial (L : Bool) :
    (∀ a, dom L a = true → opLt a a = false) ∧
    (∀ a b c, dom L a = true → dom L b = true → dom L c = true → opLt a b = true → opLt b c = true → opLt a c = true) ∧
    (∀ a b c, dom L a = true → dom L b = true → dom L c = true →
      (opLt a b = false ∧ opLt b a = false) → (opLt b c = false ∧ opLt c b = false) → (opLt a c = false ∧ opLt c a = false)) ∧
    (∀ a b, dom L a = true → dom L b = true → (opEq a b = true ↔ (opLt a b = false ∧ opLt b a = false))) := by
  refine ⟨?_, ?_, ?_, ?_⟩
  · intro a da
    simp [opLt, compare_refl_fin a (dom_finite L a da)]
  · intro a b c da db dc h1 h2
    simp only [opLt, decide_eq_true_eq] at *
    have fa := dom_finite L a da
    have fb := dom_finite L b db
    have fc := dom_finite L c dc
    have s1 := compare_antisymm_fin a b fa fb
    have s2 := compare_antisymm_fin b c fb fc
    have s3 := compare_antisymm_fin a c fa fc
    apply Classical.byContradiction
    intro hn
    -- c ≤ a and a ≤ b give c ≤ b, against b < c
    have := compare_le_trans L c a b dc da db (by omega) (by omega)
    omega
  · intro a b c da db dc h1 h2
    simp only [opLt, decide_eq_false_iff_not] at *
    have fa := dom_finite L a da
    have fb := dom_finite L b db
    have fc := dom_finite L c dc
    have s1 := compare_antisymm_fin a b fa fb
    have s2 := compare_antisymm_fin b c fb fc
    have s3 := compare_antisymm_fin a c fa fc
    have t1 := compare_le_trans L a b c da db dc (by omega) (by omega)
    have t2 := compare_le_trans L c b a dc db da (by omega) (by omega)
    omega
  · intro a b da db
    have s1 := compare_antisymm_fin a b (dom_finite L a da) (dom_finite L b db)
    simp only [opEq, opLt, beq_iff_eq, decide_eq_false_iff_not]
    omega

/-- `a == b` implies `a < c ↔ b < c` and `c < a ↔ c < b` on `dom L` (`==` is a congruence for `<`) -/
theorem eq_is_congruence_for_lt_partial (L : Bool) (a b c : CVal) (da : dom L a = true) (db : dom L b = true) (dc : dom L c = true)
    (h : opEq a b = true) : opLt a c = opLt b c ∧ opLt c a = opLt c b := by
  simp only [opEq, beq_iff_eq] at h
  have fa := dom_finite L a da
  have fb := dom_finite L b db
  have fc := dom_finite L c dc
  have s1 := compare_antisymm_fin a b fa fb
  have s2 := compare_antisymm_fin b c fb fc
  have s3 := compare_antisymm_fin a c fa fc
  have t1 := compare_le_trans L a b c da db dc (by omega)
  have t2 := compare_le_trans L b a c db da dc (by omega)
  have t3 := compare_le_trans L c a b dc da db
  have t4 := compare_le_trans L c b a dc db da
  simp only [opLt]
  constructor
  · by_cases x : Compare.compare a c < 0 <;> by_cases y : Compare.compare b c < 0 <;> simp [x, y] <;> omega
  · by_cases x : Compare.compare c a < 0 <;> by_cases y : Compare.compare c b < 0 <;> simp [x, y] <;> omega

/-! #### the full statements fail on the code: closed counterexamples (each reproduced on the real code, op lines in the comments) -/

/-- `==` is not transitive: 2^53+1 (int64) == 2^53 (double) == 2^53 (int64), the two integers differ.
    `dom mcmp I9007199254740993 d4340000000000000` → c0; `dom mcmp d4340000000000000 I9007199254740992` → c0;
    `dom mcmp I9007199254740993 I9007199254740992` → c1 -/
theorem eq_not_transitive_beyond_2_53 :
    opEq (.i64 9007199254740993) (.dbl 0x4340000000000000) = true ∧ opEq (.dbl 0x4340000000000000) (.i64 9007199254740992) = true ∧
    opEq (.i64 9007199254740993) (.i64 9007199254740992) = false ∧
    finite (.i64 9007199254740993) = true ∧ finite (.dbl 0x4340000000000000) = true ∧ finite (.i64 9007199254740992) = true := by
  simp only [opEq, Compare.compare, finite]; decide

/-- `<` has a cycle: 5 < json() < 1.0 < 5. `dom mcmp I5 E` → c-1; `dom mcmp E d3ff0000000000000` → c-1; `dom mcmp d3ff0000000000000 I5` → c-1 -/
theorem lt_cycle_through_empty_object :
    opLt (.i64 5) .emptyObj = true ∧ opLt .emptyObj (.dbl 0x3ff0000000000000) = true ∧ opLt (.dbl 0x3ff0000000000000) (.i64 5) = true := by
  simp only [opLt, Compare.compare]; decide

/-- `json() == json(json_object_arg)` but `json() < 1.0` and `json(json_object_arg) > 1.0`.
    `dom mcmp E { }` → c0; `dom mcmp E d3ff0000000000000` → c-1; `dom mcmp { } d3ff0000000000000` → c1 -/
theorem eq_not_congruent_empty_object :
    opEq .emptyObj (.obj []) = true ∧ opLt .emptyObj (.dbl 0x3ff0000000000000) = true ∧ opLt (.obj []) (.dbl 0x3ff0000000000000) = false := by
  simp [opEq, opLt, Compare.compare]; decide

/-- `<` has a cycle: "b" < bytes(01) < "aaaaaaaaaaaaaa" (14 bytes, long_str) < "b".
    `dom mcmp s62 b01` → c-1; `dom mcmp b01 s6161616161616161616161616161` → c-1; `dom mcmp s6161616161616161616161616161 s62` → c-1 -/
theorem lt_cycle_short_long_strings :
    opLt (.str [98]) (.bstr [1]) = true ∧ opLt (.bstr [1]) (.str (List.replicate 14 97)) = true ∧
    opLt (.str (List.replicate 14 97)) (.str [98]) = true := by
  simp [opLt, Compare.compare]; decide

/-- `<` has a cycle on arrays of numbers: [2^53, 5] < [2^53+1, 0] < [2^53 (double), 1] < [2^53, 5].
    `dom mcmp [ I9007199254740992 I5 ] [ I9007199254740993 I0 ]`, `dom mcmp [ I9007199254740993 I0 ] [ d4340000000000000 I1 ]`,
    `dom mcmp [ d4340000000000000 I1 ] [ I9007199254740992 I5 ]` → c-1 each -/
theorem lt_cycle_arrays_beyond_2_53 :
    opLt (.arr [.i64 9007199254740992, .i64 5]) (.arr [.i64 9007199254740993, .i64 0]) = true ∧
    opLt (.arr [.i64 9007199254740993, .i64 0]) (.arr [.dbl 0x4340000000000000, .i64 1]) = true ∧
    opLt (.arr [.dbl 0x4340000000000000, .i64 1]) (.arr [.i64 9007199254740992, .i64 5]) = true := by
  simp only [opLt, Compare.compare, arrEq, arrLt]; decide

/-! non-vacuity of the domain: nested values of every kind are in `dom false` -/
example : dom false (.arr [.null, .bool true, .i64 (-9007199254740992), .u64 9007199254740992, .dbl 0x3ff8000000000000, .half 0x3c00,
    .str [97], .bstr [0], .obj [([97], .arr []), ([98], .obj [])]]) = true := by decide
example : dom true (.obj [([97], .str (List.replicate 14 97))]) = true := by decide

end whole

/-! non-vacuity: the hypotheses are met by concrete states -/
example : Sorted ([([97], JVal.null), ([98], JVal.bool true)] : List (Bytes × JVal)) := ⟨by decide, trivial⟩
example : (Model.Compare.Stored.i64 (-1)).WF ∧ (Model.Compare.Stored.u64 (2 ^ 64 - 1)).WF := by
  constructor <;> simp [Model.Compare.Stored.WF]
example : Model.Compare.compareStored (.i64 (-1)) (.u64 (2 ^ 64 - 1)) = -1 := by decide

end C09
end Props
end JV
