/-
  C17 — typed encoding and decoding are inverse and route-independent.

  `JV.Model.Typed.conv t j` is the composition "convert j to the C++ type described by t, express the result as JSON" that both
  routes (json_traits on a basic_json, decode_traits/encode_traits on the event stream) have to compute. The correspondence check
  runs 49 concrete C++ types — one per descriptor in the driver's table — through both routes in five formats and judges them
  against each other and against `conv`.

  Proved: for every descriptor built from integers, strings, booleans, sequences, maps, tuples, pairs, fixed arrays, optionals
  and enumerations, and every JSON value, the conversion is a retraction: if j converts to v then v converts to itself
  (`typed_round_trip`) — decoding the encoding of a typed value gives the value back; and the result of a failed conversion carries
  no value at all (`Except`), so no partly filled object can be returned. Sets, variants and structs (member macros) are in the
  model and in the check, not in the theorem (see DESIGN.md).
-/
import JV.Proofs.Typed
namespace JV
namespace Props
namespace C17
open Model.Typed

theorem typed_round_trip (t : Ty) (ht : Simple t) (j v : JVal) (h : conv t j = .ok v) : conv t v = .ok v :=
  conv_idem t ht j v h

/-- converting twice is converting once -/
theorem conversion_is_idempotent (t : Ty) (ht : Simple t) (j : JVal) :
    (conv t j).bind (conv t) = conv t j ∨ ∃ e, conv t j = .error e := by
  cases h : conv t j with
  | error e => exact Or.inr ⟨e, rfl⟩
  | ok v => exact Or.inl (by simp [Except.bind, conv_idem t ht j v h])

/-- a tuple needs an element for every component: a shorter array is a conversion error, never a partly filled tuple -/
theorem short_tuple_is_an_error (t : Ty) (ts : List Ty) : convTuple (t :: ts) [] = .error .conv := by
  simp [convTuple]

theorem fixed_array_needs_exact_length (t : Ty) (n : Nat) (xs : List JVal) (h : xs.length ≠ n) :
    conv (.array t n) (.arr xs) = .error .conv := by
  simp [conv, h]

/-- a pair takes an array of exactly two elements: a shorter or a longer one is a conversion error, nothing is dropped -/
theorem pair_needs_exactly_two (a b : Ty) (xs : List JVal) (h : xs.length ≠ 2) :
    conv (.pair a b) (.arr xs) = .error .conv := by
  match xs, h with
  | [], _ => simp [conv]
  | [_], _ => simp [conv]
  | [_, _], h => exact absurd rfl h
  | _ :: _ :: _ :: _, _ => simp [conv]

/-! non-vacuity -/
example : Simple (.seq (.tuple [.int (-128) 127, .str, .opt .bool])) := by simp [Simple, SimpleList]
example : conv (.tuple [.int 0 255, .str]) (.arr [.int 7, .str [97], .null]) = .ok (.arr [.int 7, .str [97]]) := by
  simp [conv, convTuple]

end C17
end Props
end JV
