/-
  C01X — the translator tie for C01: the case labels and constants of `escape_string` (json_encoders.hpp) and of
  `to_hex_character` (write_number.hpp), REGENERATED from the C++ source on every run (tools/extract.py →
  JV/Extracted/JsonTables.lean), are the ones the model JV.Model.JsonEscape was written with — the model about which
  Props.C01.escape_unescape is proved.

  `fromSource` below is the escaper's per-character decision rebuilt ONLY from the extracted data (which bytes have a
  two-character escape and which letter, the solidus branch, the control-character test, the hex digit formula).
  The theorem says the hand-written model computes the same output on every one-character string under all four
  option settings; together with the correspondence stream (model vs real escape_string on generated strings) this
  pins the per-byte table from both sides.
-/
import JV.Model.JsonEscape
import JV.Extracted.Lookup
import JV.Extracted.JsonTables
namespace JV.Props.C01X
open JV JV.Extracted Model.JsonEscape

/-- `to_hex_character` rebuilt from the extracted `(c < a) ? (b + c) : (d - e + c)` -/
def hexFromSource (n : Nat) : Nat :=
  if n < at' hexCharacter 0 then at' hexCharacter 1 + n else at' hexCharacter 2 - at' hexCharacter 3 + n

/-- `\uXXXX` with the extracted hex digits -/
def u4FromSource (cp : Nat) : Bytes :=
  [92, 117, hexFromSource (cp / 4096 % 16), hexFromSource (cp / 256 % 16), hexFromSource (cp / 16 % 16), hexFromSource (cp % 16)]

/-- `is_control_character` rebuilt from the extracted bound and extra value -/
def isControlFromSource (c : Nat) : Bool := c ≤ controlMax || controlAlso.contains c

def caseFor (c : Nat) : List (Nat × Nat × Nat) → Option (Nat × Nat)
  | [] => none
  | (b, x, y) :: r => if b = c then some (x, y) else caseFor c r

/-- output of the escaper on the one-byte string `[c]`, from the extracted tables alone (`none` = throws illegal_codepoint:
    a lone byte ≥ 0x80 is not a UTF-8 sequence, and is only looked at when escape_all_non_ascii is on) -/
def fromSource (escAll solidus : Bool) (c : Nat) : Option Bytes :=
  match caseFor c escapeCases with
  | some (x, y) => some [x, y]
  | none =>
    if solidus && c = escapeSolidus.1 then some [escapeSolidus.2.1, escapeSolidus.2.2]
    else if isControlFromSource c || escAll then
      if c ≥ nonAsciiMin then none
      else if isControlFromSource c then some (u4FromSource c) else some [c]
    else some [c]

/-- the model's per-byte behaviour is the source's case table, for every byte and all four option settings -/
theorem escape_class_agrees :
    ∀ c, c < 256 → ∀ escAll solidus : Bool, escapeString escAll solidus [c] = fromSource escAll solidus c := by decide +kernel

/-- the special cases, spelled out: exactly `\\ \" \b \f \n \r \t`, each written as backslash + letter -/
theorem escape_cases_are_rfc8259 :
    escapeCases = [(92, 92, 92), (34, 92, 34), (8, 92, 98), (12, 92, 102), (10, 92, 110), (13, 92, 114), (9, 92, 116)]
    ∧ escapeSolidus = (47, 92, 47) := by decide

/-- every control character %x00-1F (which RFC 8259 requires to be escaped) is escaped by the source's rules: it has a case label or
    passes `is_control_character`; and no printable ASCII character other than `"` and `\` is touched when escape_solidus is off -/
theorem every_control_is_escaped :
    ∀ c, c < 128 → ((c < 32 → ((caseFor c escapeCases).isSome || isControlFromSource c) = true)
      ∧ (32 ≤ c ∧ c ≠ 34 ∧ c ≠ 92 ∧ c ≠ 127 → fromSource false false c = some [c])) := by decide +kernel

/-- `to_hex_character` is the model's `hexChar` (upper-case digits) -/
theorem hex_character_agrees : ∀ n, n < 16 → hexChar n = hexFromSource n := by decide

/-- `is_control_character` is the model's `isControl` -/
theorem is_control_agrees : ∀ c, c < 256 → isControl c = isControlFromSource c := by decide +kernel

/-- surrogate-pair arithmetic: the source's `cp -= 0x10000; (cp >> 10) + 0xD800; (cp & 0x3FF) + 0xDC00` under `cp > 0xFFFF` is the
    model's `v / 1024 + 0xD800`, `v % 1024 + 0xDC00` -/
theorem surrogate_arithmetic_agrees (v : Nat) :
    escapeMaxBmp = 0xFFFF ∧ at' escapeSurrogateArith 0 = 0x10000
    ∧ (v >>> at' escapeSurrogateArith 1) + at' escapeSurrogateArith 2 = v / 1024 + 0xD800
    ∧ (v &&& at' escapeSurrogateArith 3) + at' escapeSurrogateArith 4 = v % 1024 + 0xDC00 := by
  refine ⟨by decide, by decide, ?_, ?_⟩
  · have : at' escapeSurrogateArith 1 = 10 ∧ at' escapeSurrogateArith 2 = 0xD800 := by decide
    rw [this.1, this.2, Nat.shiftRight_eq_div_pow]
  · have : at' escapeSurrogateArith 3 = 2 ^ 10 - 1 ∧ at' escapeSurrogateArith 4 = 0xDC00 := by decide
    rw [this.1, this.2, Nat.and_two_pow_sub_one_eq_mod]

end JV.Props.C01X
