/-
  C05 — no input or option can make a decoder, compiler or encoder misbehave.

  Memory safety, undefined behaviour, leaks and the type of escaping exceptions are facts about the compiled artefact; no Lean model
  can exhibit them (DESIGN.md §6). What is logic, and is proved, are the index and length computations whose results the C++ uses
  to address memory — for every input, so that "in bounds" does not depend on the inputs a fuzzer happened to produce:
    * every index the JSONPath / JMESPath slice arithmetic visits is inside the array, for all start/stop/step (`slice_indices_in_bounds`);
    * the payload reader all binary decoders share never grows its buffer beyond what arrived plus one chunk, whatever length the
      input claims (`read_ledger_bound`, from C10);
    * positional conversions read only existing elements: a tuple shorter than its type, or an array of the wrong length, is a
      conversion error (`short_tuple_is_error`, `wrong_length_array_is_error`, from C17);
    * the CSV field scanner consumes its input and stops (total function; `scan_is_total`);
    * the CBOR decoder MODEL (JV.Model.CborParser = the parse() / read_item() loop of cbor_parser.hpp, tied to the real decoder by
      differential testing, C07) TERMINATES on every input: the model recurses on a fuel argument, and the termination argument
      of the real loop is that the fuel `decode` supplies, 2·|input|+2, is never exhausted (`cbor_fuel_suffices`) — because every
      item that is read consumes at least one byte (`cbor_item_consumes`). So on every byte string the decoder stops with a value and a strictly shorter rest, with one of
      its `cbor_errc` codes, or with the model's documented `skip` (a tag: outside the modelled fragment) (`cbor_decode_outcomes`).
  Everything else is observed, not proved: the check drives every public entry point with mutated spec-derived inputs under
  ASan + UBSan and classifies every exception (see checks/c05.py).
-/
import JV.Proofs.JsonPathSlice
import JV.Props.C10
import JV.Props.C17
import JV.Model.Csv
import JV.Proofs.CborParserFuel
namespace JV
namespace Props
namespace C05

theorem slice_indices_in_bounds (s : Model.JsonPath.Slice) (n : Nat) : ∀ x ∈ Model.JsonPath.sliceIdx s n, x < n :=
  Model.JsonPath.sliceIdx_lt s n

theorem short_tuple_is_error (t : Model.Typed.Ty) (ts : List Model.Typed.Ty) :
    Model.Typed.convTuple (t :: ts) [] = .error .conv := C17.short_tuple_is_an_error t ts

theorem wrong_length_array_is_error (t : Model.Typed.Ty) (n : Nat) (xs : List JVal) (h : xs.length ≠ n) :
    Model.Typed.conv (.array t n) (.arr xs) = .error .conv := C17.fixed_array_needs_exact_length t n xs h

/-- the scanner is a total function of its input: it returns a field, "input ended inside quotes" or "bad character", never diverges -/
theorem scan_is_total (o : Model.Csv.Opts) (input : Bytes) :
    (∃ r, Model.Csv.scanField o input = .ok r) ∨ Model.Csv.scanField o input = .eof ∨ Model.Csv.scanField o input = .bad := by
  cases h : Model.Csv.scanField o input with
  | ok r => exact Or.inl ⟨r, rfl⟩
  | eof => exact Or.inr (Or.inl rfl)
  | bad => exact Or.inr (Or.inr rfl)

/-! ### the CBOR decoder model terminates -/

/-- every item the decoder reads consumes at least one byte — at every fuel, nesting level and limit -/
theorem cbor_item_consumes (maxDepth fuel depth : Nat) (bs : Bytes) (v : Model.CborParser.Item) (rest : Bytes)
    (h : Model.CborParser.item maxDepth fuel depth bs = .ok v rest) : rest.length < bs.length :=
  Model.CborParser.item_consumes h

/-- … and so do the four container loops (the definite ones may be asked for zero elements: they never give bytes back) -/
theorem cbor_containers_consume (maxDepth fuel depth : Nat) :
    (∀ n s v r, Model.CborParser.items maxDepth fuel depth n s = .ok v r → r.length ≤ s.length) ∧
    (∀ s v r, Model.CborParser.itemsIndef maxDepth fuel depth s = .ok v r → r.length < s.length) ∧
    (∀ n s v r, Model.CborParser.members maxDepth fuel depth n s = .ok v r → r.length ≤ s.length) ∧
    (∀ s v r, Model.CborParser.membersIndef maxDepth fuel depth s = .ok v r → r.length < s.length) :=
  have h := Model.CborParser.consumes_all maxDepth fuel
  ⟨h.2.1 depth, h.2.2.1 depth, h.2.2.2.1 depth, h.2.2.2.2 depth⟩

/-- fuel adequacy: with the fuel `decode` supplies (2·|bs|+2) the model never answers "out of fuel" — the loop terminates -/
theorem cbor_fuel_suffices (maxDepth : Nat) (bs : Bytes) : Model.CborParser.decode maxDepth bs ≠ .fail .fuel :=
  Model.CborParser.decode_ne_fuel maxDepth bs

/-- … at any position: 2·|bs|+1 is enough for one item, 2·|bs|+2 for each container loop -/
theorem cbor_fuel_suffices_inner (maxDepth fuel depth : Nat) (bs : Bytes) :
    (2 * bs.length + 1 ≤ fuel → Model.CborParser.item maxDepth fuel depth bs ≠ .fail .fuel) ∧
    (2 * bs.length + 2 ≤ fuel →
      (∀ n, Model.CborParser.items maxDepth fuel depth n bs ≠ .fail .fuel) ∧ Model.CborParser.itemsIndef maxDepth fuel depth bs ≠ .fail .fuel ∧
      (∀ n, Model.CborParser.members maxDepth fuel depth n bs ≠ .fail .fuel) ∧ Model.CborParser.membersIndef maxDepth fuel depth bs ≠ .fail .fuel) :=
  have h := Model.CborParser.nofuel_all maxDepth fuel
  ⟨h.1 depth bs, fun hf => ⟨fun n => h.2.1 depth n bs hf, h.2.2.1 depth bs hf, fun n => h.2.2.2.1 depth n bs hf, h.2.2.2.2 depth bs hf⟩⟩

/-- on every byte string the decoder stops with a value and a strictly shorter rest, with one of its error codes, or (a tag at an
    item start: outside the modelled fragment) with `skip` -/
theorem cbor_decode_outcomes (maxDepth : Nat) (bs : Bytes) :
    (∃ v rest, Model.CborParser.decode maxDepth bs = .ok v rest ∧ rest.length < bs.length) ∨
    (∃ e, Model.CborParser.decode maxDepth bs = .fail (.err e)) ∨
    Model.CborParser.decode maxDepth bs = .fail .skip := by
  have hf := cbor_fuel_suffices maxDepth bs
  cases h : Model.CborParser.decode maxDepth bs with
  | ok v rest => exact Or.inl ⟨v, rest, rfl, Model.CborParser.item_consumes h⟩
  | fail f =>
    cases f with
    | err e => exact Or.inr (Or.inl ⟨e, rfl⟩)
    | skip => exact Or.inr (Or.inr rfl)
    | fuel => exact absurd h hf

/-! non-vacuity: the three outcomes occur; an empty input is an error, not "out of fuel" -/
example : Model.CborParser.decode 8 [0x82, 1, 0x61, 0x41, 9] = .ok (.arr [.uint 1, .str [0x41]]) [9] := by rfl
example : Model.CborParser.decode 8 [] = .fail (.err .unexpectedEof) := by rfl
example : Model.CborParser.decode 8 [0xc0, 0] = .fail .skip := by rfl
example : Model.CborParser.item 8 0 0 [0] = .fail .fuel := by rfl

end C05
end Props
end JV
