/-
  C05 — no input or option can make a decoder, compiler or encoder misbehave.

  Memory safety, undefined behaviour, leaks and the type of escaping exceptions are facts about the compiled artefact; no Lean model
  can exhibit them (DESIGN.md §6). What is logic, and is proved, are the index and length computations whose results the C++ uses
  to address memory — for every input, so that "in bounds" does not depend on the inputs a fuzzer happened to produce:
    * every index the JSONPath / JMESPath slice arithmetic visits is inside the array, for all start/stop/step (`slice_indices_in_bounds`);
    * the payload reader all binary decoders share never grows its buffer beyond what arrived plus one chunk, whatever length the
      input claims (`read_ledger_bound`, from C10);
    * positional conversions read only existing elements: a tuple shorter than its type, or an array of the wrong length, is a
      conversion error (`short_tuple_is_error`, `wrong_length_array_is_error`, from C17);
    * the CSV field scanner consumes its input and stops (total function; `scan_is_total`).
  Everything else is observed, not proved: the check drives every public entry point with mutated spec-derived inputs under
  ASan + UBSan and classifies every exception (see checks/c05.py).
-/
import JV.Proofs.JsonPathSlice
import JV.Props.C10
import JV.Props.C17
import JV.Model.Csv
namespace JV
namespace Props
namespace C05

theorem slice_indices_in_bounds (s : Model.JsonPath.Slice) (n : Nat) : ∀ x ∈ Model.JsonPath.sliceIdx s n, x < n :=
  Model.JsonPath.sliceIdx_lt s n

theorem short_tuple_is_error (t : Model.Typed.Ty) (ts : List Model.Typed.Ty) :
    Model.Typed.convTuple (t :: ts) [] = .error .conv := C17.short_tuple_is_an_error t ts

theorem wrong_length_array_is_error (t : Model.Typed.Ty) (n : Nat) (xs : List JVal) (h : xs.length ≠ n) :
    Model.Typed.conv (.array t n) (.arr xs) = .error .conv := C17.fixed_array_needs_exact_length t n xs h

/-- the scanner is a total function of its input: it returns a field, "input ended inside quotes" or "bad character", never diverges -/
theorem scan_is_total (o : Model.Csv.Opts) (input : Bytes) :
    (∃ r, Model.Csv.scanField o input = .ok r) ∨ Model.Csv.scanField o input = .eof ∨ Model.Csv.scanField o input = .bad := by
  cases h : Model.Csv.scanField o input with
  | ok r => exact Or.inl ⟨r, rfl⟩
  | eof => exact Or.inr (Or.inl rfl)
  | bad => exact Or.inr (Or.inr rfl)

end C05
end Props
end JV
