import JV.Model.Pointer
import JV.Spec.Rfc6901
namespace JV.Props.C14
theorem placeholder : True := trivial
end JV.Props.C14
