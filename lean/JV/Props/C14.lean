/-
  C14 — JSON Pointer operations follow RFC 6901.

  Model : JV.Model.Pointer (jsonpointer.hpp: parse/to_string state machine, resolve, get, contains,
          add, add_if_absent, replace, remove, create_if_missing; state-passing: the document after
          an error is part of the result), for both object flavours.
          JV.Model.Unflatten (jsonpointer.hpp `unflatten`, `unflatten_object`, `try_unflatten_array`,
          `find_inner_last`, both `unflatten_options`), tied line by line to the real code.
  Spec  : JV.Spec.Rfc6901.
  Helper lemmas: JV.Proofs.PointerText, JV.Proofs.PointerOps, JV.Proofs.Number,
          JV.Proofs.Unflatten{Map,Order,Leaves,Blocks,Sorted,Collect,Build}.

  flatten / unflatten.  Proved for ALL documents of the sorted flavour (`jsoncons::json`):
    * `unflatten_flatten`: unflatten(flatten(d), options) = d for every `Roundtrippable` d, both options;
      `Roundtrippable` is decidable and asks only for the representation invariant (objects sorted by
      name, arrays shorter than 2^64) plus: default option - no non-empty object whose member names are
      exactly the RFC 6901 array indices 0..n-1; assume_object - no non-empty array.  Empty containers
      and scalars anywhere, also as the root, arrays of any length ("10" sorts before "2" in the pointer
      map), names with '/' '~', "-", "01" (after /repo 52dff66) all round-trip.
    * `index_named_object_comes_back_as_array`: the default option's clause is necessary.
    * `flatten_pointers_resolve`: every pointer flatten emits addresses the value it is paired with.
  NOT proved (observed by the `flatten` stream of checks/c14.py against the documented behaviour):
    * under assume_object a non-empty array comes back as the object {"0":..,"n-1":..} (the exact image
      of documents that are not Roundtrippable; only the default-option case is a theorem here);
    * the insertion-ordered flavour (`ojson`, `ordered = true`): unflatten returns members in pointer
      order, so the round trip holds only up to member order; model and code are tied on it, no theorem.
-/
import JV.Proofs.PointerText
import JV.Proofs.PointerOps
import JV.Proofs.UnflattenBuild
namespace JV.Props.C14
open JV Model Model.Pointer

/-- printing any token list and parsing the text back is the identity (every byte value, empty
    tokens, `~` and `/` inside tokens) -/
theorem parse_toString (ts : List Bytes) : parse (Pointer.toString ts) = .ok ts :=
  parse_toString_aux ts

/-- parsing a pointer and printing it back is the identity on accepted pointers -/
theorem toString_parse (s : Bytes) (ts : List Bytes) (h : parse s = .ok ts) : Pointer.toString ts = s :=
  toString_parse_aux s ts h

/-- `~0`/`~1` escaping exactly as specified: the printed form of a token contains no raw `/`,
    and `~` only in the two escape sequences -/
theorem escape_exact (c : Nat) :
    escapeToken [c] = (if c = 126 then [126, 48] else if c = 47 then [126, 49] else [c]) := by
  by_cases h1 : c = 126
  · simp [escapeToken, h1]
  · by_cases h2 : c = 47
    · simp [escapeToken, h2]
    · simp [escapeToken, h1, h2]

/-- array-index tokens: accepted exactly when RFC 6901's `array-index` syntax holds and the value fits
    `size_t`; never for `-`, signs, blanks, leading zeros -/
theorem index_token_sound (tok : Bytes) (n : Nat) (h : decToIndex tok = some n) :
    Spec.Rfc6901.arrayIndex tok = some n :=
  decToIndex_sound h

theorem index_token_complete (tok : Bytes) (n : Nat) (h : Spec.Rfc6901.arrayIndex tok = some n) (hn : n < 2 ^ 64) :
    decToIndex tok = some n :=
  decToIndex_complete h hn

/-- `get` returns a value only if RFC 6901 evaluation yields that value … -/
theorem get_sound_wrt_rfc (d v : JVal) (ts : List Bytes) (h : get d ts = .ok v) : Spec.Rfc6901.eval d ts = some v :=
  get_sound ts d v h

/-- … and whenever RFC 6901 evaluation yields a value, `get` returns it (arrays shorter than 2^64). -/
theorem get_complete_wrt_rfc (d v : JVal) (ts : List Bytes) (hs : SmallArrays d)
    (h : Spec.Rfc6901.eval d ts = some v) : get d ts = .ok v :=
  get_complete ts d v hs h

/-- `contains` is `get` succeeding -/
theorem contains_iff (d : JVal) (ts : List Bytes) : contains d ts = true ↔ ∃ v, get d ts = .ok v := by
  unfold contains
  cases get d ts with
  | ok v => simp
  | error e => simp

/-- an operation that reports an error leaves the document untouched — for add, add_if_absent,
    replace (also with create_if_missing, which creates intermediate members in place) and remove,
    for sorted and insertion-ordered objects. -/
theorem error_leaves_doc (ordered create : Bool) (f : Final) (hf : f.isRemove = true → create = false)
    (d : JVal) (ts : List Bytes) (h : (apply ordered create f d ts).1 ≠ none) :
    (apply ordered create f d ts).2 = d := by
  cases ts with
  | nil => cases f <;> simp_all [apply]
  | cons tok rest => exact modifyAt_err ordered create f hf rest d tok h

/-- the string overloads do not touch the document on a syntax error either -/
theorem error_leaves_doc_str (ordered create : Bool) (f : Final) (hf : f.isRemove = true → create = false)
    (d : JVal) (loc : Bytes) (h : (applyStr ordered create f d loc).1 ≠ none) :
    (applyStr ordered create f d loc).2 = d := by
  unfold applyStr at h ⊢
  cases hp : parse loc with
  | error e => simp
  | ok ts =>
    rw [hp] at h
    exact error_leaves_doc ordered create f hf d ts h

/-- after a successful add / add_if_absent / replace at a location whose last token is not `-`,
    `get` at that location returns exactly the value written -/
theorem write_then_get (ordered create : Bool) (f : Final) (v : JVal)
    (hf : f = .add v ∨ f = .addIfAbsent v ∨ f = .replace v) (d : JVal) (ts : List Bytes)
    (hlast : ts.getLast? ≠ some [45]) (hok : (apply ordered create f d ts).1 = none) :
    get (apply ordered create f d ts).2 ts = .ok v := by
  cases ts with
  | nil => rcases hf with hf | hf | hf <;> subst hf <;> simp [apply, Pointer.get]
  | cons tok rest => exact modifyAt_then_get ordered create f v hf rest d tok hlast hok

/-- `-` appends: adding at the pointer "/" ++ "-" of an array makes the value its last element -/
theorem dash_appends (ordered create : Bool) (xs : List JVal) (v : JVal) :
    apply ordered create (.add v) (.arr xs) [[45]] = (none, .arr (xs ++ [v])) := by
  simp [apply, modifyAt, finalStep, isDash]

/-- `add` at an index inserts and shifts, `replace` overwrites in place -/
theorem add_inserts_replace_overwrites (ordered create : Bool) (xs : List JVal) (v : JVal) (tok : Bytes) (i : Nat)
    (hi : decToIndex tok = some i) (hlt : i < xs.length) (hd : isDash tok = false) :
    apply ordered create (.add v) (.arr xs) [tok] = (none, .arr (xs.take i ++ v :: xs.drop i)) ∧
    apply ordered create (.replace v) (.arr xs) [tok] = (none, .arr (xs.set i v)) := by
  have h1 : ¬ i > xs.length := by omega
  have h2 : ¬ i = xs.length := by omega
  have h3 : ¬ i ≥ xs.length := by omega
  simp [apply, modifyAt, finalStep, hd, hi, h1, h2, h3, insertAt]

/-! ### flatten / unflatten -/

/-- the documents `unflatten(flatten(d), options)` returns unchanged (`assumeObject` =
    `unflatten_options::assume_object`); see `SMap.roundtrippable`: sorted objects, arrays shorter than
    2^64, and no non-empty array (assume_object) / no non-empty object named exactly 0..n-1 (default) -/
def Roundtrippable (assumeObject : Bool) (d : JVal) : Prop := SMap.roundtrippable assumeObject d = true

instance (a : Bool) (d : JVal) : Decidable (Roundtrippable a d) := inferInstanceAs (Decidable (_ = true))

/-- unflatten(flatten(d), options) = d for every roundtrippable document, for both options -/
theorem unflatten_flatten (assumeObject : Bool) (d : JVal) (h : Roundtrippable assumeObject d) :
    unflatten false assumeObject (flatten false d) = .ok d :=
  SMap.unflatten_flatten_main assumeObject d h

/-- … and the default option's restriction is necessary: a sorted object whose member names are exactly
    the array indices 0..n-1 comes back as an array (the ambiguity doc/ref/jsonpointer/flatten.md documents) -/
theorem index_named_object_comes_back_as_array (m : Bytes × JVal) (ms : List (Bytes × JVal))
    (hs : SMap.sortedB (m :: ms) = true) (hc : SMap.rtMembers false (m :: ms) = true)
    (hal : SMap.arrayLike (m :: ms) = true) :
    ∃ xs, unflatten false false (flatten false (.obj (m :: ms))) = .ok (.arr xs) :=
  SMap.index_named_main m ms hs hc hal

/-- every pointer flatten emits addresses (by `get`, hence by RFC 6901 evaluation: `get_sound_wrt_rfc`)
    the value it is paired with -/
theorem flatten_pointers_resolve (d : JVal) (hw : JVal.WF d) (hs : SmallArrays d) (ms : List (Bytes × JVal))
    (hf : flatten false d = .obj ms) : ∀ kv ∈ ms, getStr d kv.1 = .ok kv.2 := by
  intro kv hkv
  have hms : ms = flattenInto false [] d [] := by
    unfold flatten at hf; cases hf; rfl
  rw [hms] at hkv
  obtain ⟨e, he, rfl⟩ := (SMap.flatten_members d hw hs kv).1 hkv
  simp only [getStr, parse_toString_aux]
  exact SMap.leaves_resolve d hw hs e he

/-- … and flatten emits a pointer for every leaf (scalar or empty container) of the document -/
theorem flatten_covers_leaves (d : JVal) (hw : JVal.WF d) (hs : SmallArrays d) (e : Entry) (he : e ∈ SMap.leaves d) :
    (Pointer.toString e.1, e.2) ∈ flattenInto false [] d [] :=
  (SMap.flatten_members d hw hs _).2 ⟨e, he, rfl⟩

/-! ### non-vacuity -/

-- [ {"a":[], "b":{"0":1,"2":null}}, [1,[]] ] round-trips under the default option
example : Roundtrippable false (.arr [.obj [([97], .arr []), ([98], .obj [([48], .int 1), ([50], .null)])], .arr [.int 1, .arr []]]) := by decide
-- {"0":1,"1":null} does not (it comes back as [1,null]) but does under assume_object
example : ¬ Roundtrippable false (.obj [([48], .int 1), ([49], .null)]) := by decide
example : Roundtrippable true (.obj [([48], .int 1), ([49], .null), ([97], .arr [])]) := by decide
example : SMap.arrayLike [([48], .int 1), ([49], .null)] = true ∧ SMap.arrayLike [([48], .int 1), ([48, 48], .null)] = false := by decide
-- the theorem applied: a 12-element array (pointer order "/1" < "/10" < "/11" < "/2") inside an object
example : unflatten false false (flatten false (.obj [([97], .arr ((List.range 12).map fun i => .int (Int.ofNat i)))])) =
    .ok (.obj [([97], .arr ((List.range 12).map fun i => .int (Int.ofNat i)))]) := unflatten_flatten false _ (by decide)
-- scalar and empty roots
example : Roundtrippable false (.int 5) ∧ Roundtrippable true (.obj []) ∧ Roundtrippable true (.arr []) := by decide
-- a non-empty array is not roundtrippable under assume_object
example : ¬ Roundtrippable true (.arr [.int 1]) := by decide

example : parse [47, 97, 126, 49, 98, 47, 126, 48, 47] = .ok [[97, 47, 98], [126], []] := by rfl
example : decToIndex [49, 48] = some 10 ∧ decToIndex [48, 49] = none ∧ decToIndex [45] = none := by decide
example : (apply false true (.add (.int 7)) (.obj [([97], .arr [.int 1])]) [[98], [99]]).1 = none := by decide
example : (apply false true (.add (.int 7)) (.obj [([97], .arr [.int 1])]) [[97], [120], [99]]).1 ≠ none := by decide

end JV.Props.C14
