/-
  C02X — the translator tie for C02: tables of json_parser.hpp / json_error.hpp / unicode_traits.hpp /
  read_number.hpp, REGENERATED from the C++ source on every run (tools/extract.py → JV/Extracted/*.lean),
  agree with RFC 8259 / RFC 3629 as transcribed in JV.Spec.Rfc8259. Every statement is over a finite
  domain and closed by `decide`; changing a case label, an enumerator or a table entry in the headers
  changes the generated definition and breaks the theorem that names it.

  What is tied: the set of characters the parser refuses as control characters (the macro
  JSONCONS_ILLEGAL_CONTROL_CHARACTER plus the in-string group), its white-space sets, the numbering of
  json_errc / parse_state / parse_string_state / parse_number_state (the value-initialised states the code
  writes as `parse_string_state{}` must be `text`, an error_code of 0 must mean success), the number
  scanner's character classes (digi_table) and the UTF-8 tables/constants.
  What is not: the control flow of the 2000-line state machine (compared with the reference on every run).
-/
import JV.Spec.Rfc8259
import JV.Proofs.Utf8
import JV.Extracted.Lookup
import JV.Extracted.JsonTables
import JV.Extracted.ErrorCodes
import JV.Extracted.Unicode
import JV.Extracted.Buffers
namespace JV.Props.C02X
open JV JV.Extracted Spec.Rfc8259

/-! ### control characters and white space -/

/-- the macro lists exactly the RFC 8259 control characters other than the three white-space ones -/
theorem illegal_control_is_rfc8259 :
    ∀ c, c < 256 → (c ∈ illegalControl ↔ (c < 0x20 ∧ c ≠ 9 ∧ c ≠ 10 ∧ c ≠ 13)) := by decide +kernel

/-- inside a string the macro's group and the `\n \r \t` group together are exactly %x00-1F, the characters the
    reference refuses (`parseChars`: `c < 32`, Props.C02.control_char_rejected) -/
theorem string_refuses_exactly_the_controls :
    ∀ c, c < 256 → ((c ∈ illegalControl ∨ c ∈ stringIllegalWhitespace) ↔ c < 32) := by decide +kernel

/-- … and the two groups do not overlap (each character has one error code) -/
theorem string_groups_disjoint : ∀ c, c < 256 → ¬ (c ∈ illegalControl ∧ c ∈ stringIllegalWhitespace) := by decide +kernel

/-- the error codes named in the two groups exist in json_errc -/
theorem string_group_errors_exist :
    (lookup jsonErrc illegalControlError).isSome = true ∧ (lookup jsonErrc stringIllegalWhitespaceError).isSome = true
    ∧ (lookup jsonErrc trailingOtherError).isSome = true ∧ illegalControlError ≠ stringIllegalWhitespaceError := by decide

/-- white space between tokens (the case group in front of every `skip_space`) is RFC 8259 `ws` -/
theorem structural_whitespace_is_rfc8259 : ∀ c, c < 256 → (c ∈ structuralWhitespace ↔ isWs c = true) := by decide +kernel

/-- white space after the top-level value (`check_done`) is RFC 8259 `ws` -/
theorem trailing_whitespace_is_rfc8259 : ∀ c, c < 256 → (c ∈ trailingWhitespace ↔ isWs c = true) := by decide +kernel

/-- no character is both white space and an illegal control character -/
theorem whitespace_not_illegal : ∀ c ∈ structuralWhitespace, c ∉ illegalControl := by decide

/-! ### enumerations -/

/-- numeric value of a json_errc enumerator in the C++ source -/
def errc (name : String) : Option Nat := lookup jsonErrc name
def parseStateNum (name : String) : Option Nat := lookup parseState name
def parseStringStateNum (name : String) : Option Nat := lookup parseStringState name
def parseNumberStateNum (name : String) : Option Nat := lookup parseNumberState name

theorem errc_success : errc "success" = some 0 := by decide
theorem errc_unexpected_eof : errc "unexpected_eof" = some 1 := by decide
theorem errc_source_error : errc "source_error" = some 2 := by decide
theorem errc_syntax_error : errc "syntax_error" = some 3 := by decide
theorem errc_extra_character : errc "extra_character" = some 4 := by decide
theorem errc_max_nesting_depth_exceeded : errc "max_nesting_depth_exceeded" = some 5 := by decide
theorem errc_single_quote : errc "single_quote" = some 6 := by decide
theorem errc_illegal_character_in_string : errc "illegal_character_in_string" = some 7 := by decide
theorem errc_extra_comma : errc "extra_comma" = some 8 := by decide
theorem errc_expected_key : errc "expected_key" = some 9 := by decide
theorem errc_expected_value : errc "expected_value" = some 10 := by decide
theorem errc_invalid_value : errc "invalid_value" = some 11 := by decide
theorem errc_expected_colon : errc "expected_colon" = some 12 := by decide
theorem errc_illegal_control_character : errc "illegal_control_character" = some 13 := by decide
theorem errc_illegal_escaped_character : errc "illegal_escaped_character" = some 14 := by decide
theorem errc_expected_codepoint_surrogate_pair : errc "expected_codepoint_surrogate_pair" = some 15 := by decide
theorem errc_invalid_hex_escape_sequence : errc "invalid_hex_escape_sequence" = some 16 := by decide
theorem errc_invalid_unicode_escape_sequence : errc "invalid_unicode_escape_sequence" = some 17 := by decide
theorem errc_leading_zero : errc "leading_zero" = some 18 := by decide
theorem errc_invalid_number : errc "invalid_number" = some 19 := by decide
theorem errc_expected_comma_or_rbrace : errc "expected_comma_or_rbrace" = some 20 := by decide
theorem errc_expected_comma_or_rbracket : errc "expected_comma_or_rbracket" = some 21 := by decide
theorem errc_unexpected_rbracket : errc "unexpected_rbracket" = some 22 := by decide
theorem errc_unexpected_rbrace : errc "unexpected_rbrace" = some 23 := by decide
theorem errc_illegal_comment : errc "illegal_comment" = some 24 := by decide
theorem errc_bad_continuation_byte : errc "bad_continuation_byte" = some 25 := by decide
theorem errc_over_long_utf8_sequence : errc "over_long_utf8_sequence" = some 26 := by decide
theorem errc_illegal_codepoint : errc "illegal_codepoint" = some 27 := by decide
theorem errc_illegal_surrogate_value : errc "illegal_surrogate_value" = some 28 := by decide
theorem errc_unpaired_high_surrogate : errc "unpaired_high_surrogate" = some 29 := by decide
theorem errc_illegal_unicode_character : errc "illegal_unicode_character" = some 30 := by decide
theorem errc_unexpected_character : errc "unexpected_character" = some 31 := by decide

/-- there are no other enumerators, and the values are pairwise distinct (so a value names one error) -/
theorem errc_complete : jsonErrc.length = 32 ∧ distinct (values jsonErrc) = true := by decide

/-- `parse_state`, in the order a model of the state machine numbers them; fits the `uint8_t` it is stored in -/
theorem parse_state_numbering :
    parseState = [("root", 0), ("start", 1), ("accept", 2), ("slash", 3), ("slash_slash", 4), ("slash_star", 5), ("slash_star_star", 6),
      ("expect_comma_or_end", 7), ("object", 8), ("expect_member_name_or_end", 9), ("expect_member_name", 10), ("expect_colon", 11),
      ("expect_value_or_end", 12), ("expect_value", 13), ("array", 14), ("string", 15), ("member_name", 16), ("number", 17),
      ("n", 18), ("nu", 19), ("nul", 20), ("t", 21), ("tr", 22), ("tru", 23), ("f", 24), ("fa", 25), ("fal", 26), ("fals", 27),
      ("cr", 28), ("done", 29)]
    ∧ (∀ v ∈ values parseState, v < 256) := by decide

theorem parse_string_state_numbering :
    parseStringState = [("text", 0), ("escape", 1), ("escape_u1", 2), ("escape_u2", 3), ("escape_u3", 4), ("escape_u4", 5),
      ("escape_expect_surrogate_pair1", 6), ("escape_expect_surrogate_pair2", 7), ("escape_u5", 8), ("escape_u6", 9),
      ("escape_u7", 10), ("escape_u8", 11)] := by decide

theorem parse_number_state_numbering :
    parseNumberState = [("minus", 0), ("zero", 1), ("integer", 2), ("fraction1", 3), ("fraction2", 4), ("exp1", 5), ("exp2", 6), ("exp3", 7)] := by
  decide

/-- the parser resets with `string_state_ = parse_string_state{}` (nine places): the value-initialised state must be `text`;
    the four `\uXXXX` digit states, and the four of the low surrogate, are consecutive (the code advances through them one by one) -/
theorem value_initialised_string_state_is_text :
    parseStringStateNum "text" = some 0
    ∧ (parseStringStateNum "escape_u1", parseStringStateNum "escape_u2", parseStringStateNum "escape_u3", parseStringStateNum "escape_u4") = (some 2, some 3, some 4, some 5)
    ∧ (parseStringStateNum "escape_u5", parseStringStateNum "escape_u6", parseStringStateNum "escape_u7", parseStringStateNum "escape_u8") = (some 8, some 9, some 10, some 11) := by
  decide

/-! ### the number scanner's character classes (digi_table, read_number.hpp) -/

/-- class bits by RFC 8259 `number`: "0" → 1, %x31-39 → 2, "+" → 4, "-" → 8, "." → 16, "e"/"E" → 32 -/
def numberClass (c : Nat) : Nat :=
  if c = 48 then 1 else if 49 ≤ c ∧ c ≤ 57 then 2 else if c = 43 then 4 else if c = 45 then 8 else if c = 46 then 16
  else if c = 101 ∨ c = 69 then 32 else 0

theorem digi_table_is_number_grammar : digiTable.length = 256 ∧ ∀ c, c < 256 → at' digiTable c = numberClass c := by decide +kernel

theorem digit_type_bits :
    digitTypeBits = [("DIGIT_TYPE_ZERO", 1), ("DIGIT_TYPE_NONZERO", 2), ("DIGIT_TYPE_POS", 4), ("DIGIT_TYPE_NEG", 8), ("DIGIT_TYPE_DOT", 16),
      ("DIGIT_TYPE_EXP", 32)] := by decide

/-- `is_type(c, mask)` -/
def isType (c mask : Nat) : Bool := at' digiTable c &&& mask != 0

/-- the masks the `char` predicates pass to `is_type`, as combined in the source from the DIGIT_TYPE_* bits -/
theorem digit_predicate_masks :
    digitPredicates = [("is_sign", 4 ||| 8), ("is_nonzero_digit", 2), ("is_digit", 1 ||| 2), ("is_exp", 32), ("is_fp_indicator", 16 ||| 32),
      ("is_digit_or_fp", 1 ||| 2 ||| 16 ||| 32)] := by decide

/-- the mask a predicate of the source passes to `is_type` (0, which matches nothing, if the source has no such predicate) -/
def maskOf (name : String) : Nat := (lookup digitPredicates name).getD 0

/-- a predicate of the source, as a function of the character -/
def predicate (name : String) (c : Nat) : Bool := isType c (maskOf name)

/-- the predicates the scanner uses select exactly the characters of the grammar: is_digit = DIGIT, is_nonzero_digit = %x31-39,
    is_sign = "+"/"-", is_exp = "e"/"E", is_fp_indicator = "." / e / E -/
theorem digit_predicates_are_rfc8259 :
    (∀ c, c < 256 → predicate "is_digit" c = isDigit c)
    ∧ (∀ c, c < 256 → predicate "is_nonzero_digit" c = decide (49 ≤ c ∧ c ≤ 57))
    ∧ (∀ c, c < 256 → predicate "is_sign" c = decide (c = 43 ∨ c = 45))
    ∧ (∀ c, c < 256 → predicate "is_exp" c = decide (c = 101 ∨ c = 69))
    ∧ (∀ c, c < 256 → predicate "is_fp_indicator" c = decide (c = 46 ∨ c = 101 ∨ c = 69))
    ∧ (∀ c, c < 256 → predicate "is_digit_or_fp" c = (isDigit c || decide (c = 46 ∨ c = 101 ∨ c = 69))) := by
  have h1 : maskOf "is_digit" = 3 := by decide
  have h2 : maskOf "is_nonzero_digit" = 2 := by decide
  have h3 : maskOf "is_sign" = 12 := by decide
  have h4 : maskOf "is_exp" = 32 := by decide
  have h5 : maskOf "is_fp_indicator" = 48 := by decide
  have h6 : maskOf "is_digit_or_fp" = 51 := by decide
  simp only [predicate, h1, h2, h3, h4, h5, h6]
  decide +kernel

/-! ### UTF-8 tables and constants (unicode_traits.hpp) -/

/-- number of continuation bytes announced by a lead byte, by bit pattern (ConvertUTF; 4 and 5 are the obsolete 5/6-byte forms) -/
def trailingByPattern (b : Nat) : Nat :=
  if b < 0xC0 then 0 else if b < 0xE0 then 1 else if b < 0xF0 then 2 else if b < 0xF8 then 3 else if b < 0xFC then 4 else 5

theorem trailing_bytes_table : trailingBytesForUtf8.length = 256 ∧ ∀ b, b < 256 → at' trailingBytesForUtf8 b = trailingByPattern b := by
  decide +kernel

/-- on every lead byte RFC 3629 allows (the classes of the reference `validUtf8`: 00-7F, C2-DF, E0-EF, F0-F4) the table gives the
    number of continuation bytes the reference consumes; every other byte ≥ 0x80 must be refused elsewhere -/
theorem trailing_bytes_agree_with_rfc3629 :
    ∀ b, b < 256 →
      (b < 0x80 → at' trailingBytesForUtf8 b = 0) ∧ (0xC2 ≤ b ∧ b ≤ 0xDF → at' trailingBytesForUtf8 b = 1)
      ∧ (0xE0 ≤ b ∧ b ≤ 0xEF → at' trailingBytesForUtf8 b = 2) ∧ (0xF0 ≤ b ∧ b ≤ 0xF4 → at' trailingBytesForUtf8 b = 3) := by
  decide +kernel

/-- `is_continuation_byte` is `10xxxxxx`, the range 80-BF of the reference -/
theorem continuation_byte_is_80_BF :
    continuationByte.length = 2 ∧ ∀ b, b < 256 → ((b &&& at' continuationByte 0 = at' continuationByte 1) ↔ (0x80 ≤ b ∧ b ≤ 0xBF)) := by
  decide +kernel

theorem first_byte_mark_table : firstByteMark = [0x00, 0x00, 0xC0, 0xE0, 0xF0, 0xF8, 0xFC] := by decide

/-- the first byte the reference encoder writes is the table's mark for that length plus the leading payload bits — for every code point -/
theorem first_byte_mark_is_rfc3629 (cp : Nat) :
    (utf8Encode cp).head? = some (at' firstByteMark (utf8Encode cp).length + cp / 64 ^ ((utf8Encode cp).length - 1)) := by
  unfold utf8Encode
  split
  · simp [at', firstByteMark]
  · split
    · simp [at', firstByteMark]
    · split
      · simp [at', firstByteMark]
      · simp [at', firstByteMark]

/-- `ch = ch * 64 + byte` over the bytes of a sequence, as `to_codepoint`/`convert` accumulate -/
def accumulate : Bytes → Nat → Nat
  | [], acc => acc
  | b :: bs, acc => accumulate bs (acc * 64 + b)

/-- subtracting `offsets_from_utf8[trailing bytes]` from the accumulated bytes of the UTF-8 encoding gives back the scalar value -/
theorem offsets_from_utf8_decode (cp : Nat) (h : cp < 0x110000) :
    accumulate (utf8Encode cp) 0 - at' offsetsFromUtf8 ((utf8Encode cp).length - 1) = cp := by
  unfold utf8Encode
  split
  · simp [accumulate, at', offsetsFromUtf8]
  · split
    · simp [accumulate, at', offsetsFromUtf8]; omega
    · split
      · simp [accumulate, at', offsetsFromUtf8]; omega
      · simp [accumulate, at', offsetsFromUtf8]; omega

/-- … and nothing is lost in the subtraction (the accumulated value is never below the offset) -/
theorem offsets_from_utf8_no_underflow (cp : Nat) (h : cp < 0x110000) :
    at' offsetsFromUtf8 ((utf8Encode cp).length - 1) ≤ accumulate (utf8Encode cp) 0 := by
  unfold utf8Encode
  split
  · simp [accumulate, at', offsetsFromUtf8]
  · split
    · simp [accumulate, at', offsetsFromUtf8]; omega
    · split
      · simp [accumulate, at', offsetsFromUtf8]; omega
      · simp [accumulate, at', offsetsFromUtf8]; omega

/-- the named constants are those of Unicode: scalar values are below 0x110000 and outside D800-DFFF (`Proofs.Utf8.IsScalar`) -/
theorem unicode_constants :
    lookup unicodeConstants "max_legal_utf32" = some 0x10FFFF ∧ lookup unicodeConstants "max_utf16" = some 0x10FFFF
    ∧ lookup unicodeConstants "max_bmp" = some 0xFFFF ∧ lookup unicodeConstants "replacement_char" = some 0xFFFD
    ∧ lookup unicodeConstants "sur_high_start" = some 0xD800 ∧ lookup unicodeConstants "sur_high_end" = some 0xDBFF
    ∧ lookup unicodeConstants "sur_low_start" = some 0xDC00 ∧ lookup unicodeConstants "sur_low_end" = some 0xDFFF
    ∧ lookup unicodeConstants "half_shift" = some 10 ∧ lookup unicodeConstants "half_base" = some 0x10000
    ∧ lookup unicodeConstants "half_mask" = some 0x3FF := by decide

/-- with the extracted constants, "≤ max_legal_utf32 and not in [sur_high_start, sur_low_end]" is `IsScalar` -/
theorem scalar_range_is_unicode (cp hs le mx : Nat) (h1 : lookup unicodeConstants "sur_high_start" = some hs)
    (h2 : lookup unicodeConstants "sur_low_end" = some le) (h3 : lookup unicodeConstants "max_legal_utf32" = some mx) :
    (cp ≤ mx ∧ ¬ (hs ≤ cp ∧ cp ≤ le)) ↔ IsScalar cp := by
  have e1 : hs = 0xD800 := by have := unicode_constants.2.2.2.2.1; rw [h1] at this; exact Option.some.inj this
  have e2 : le = 0xDFFF := by have := unicode_constants.2.2.2.2.2.2.2.1; rw [h2] at this; exact Option.some.inj this
  have e3 : mx = 0x10FFFF := by have := unicode_constants.1; rw [h3] at this; exact Option.some.inj this
  subst e1 e2 e3
  unfold IsScalar
  omega

/-- the byte-order marks -/
theorem byte_order_marks :
    bomUtf8 = [0xEF, 0xBB, 0xBF] ∧ bomUtf16le = [0xFF, 0xFE] ∧ bomUtf16be = [0xFE, 0xFF]
    ∧ bomUtf32le = [0xFF, 0xFE, 0, 0] ∧ bomUtf32be = [0, 0, 0xFE, 0xFF] ∧ bomUtf8 = utf8Encode 0xFEFF := by decide

end JV.Props.C02X
