import JV.Drv.Common
import JV.Model.StreamSource
namespace JV
namespace Drv
open Model.StreamSource

def srcOps : St → List String → String → String
  | _, [], acc => acc
  | s, op :: ops, acc =>
    let n := (String.ofList (op.toList.drop 1)).toNat?.getD 0
    match op.toList.head? with
    | some 'r' =>
      let r := read s n
      srcOps r.2.2 ops (acc ++ " r" ++ toString r.1 ++ ":" ++ Wire.hexOfBytes (r.2.1.take r.1))
    | some 'p' =>
      let r := peek s
      srcOps r.2 ops (acc ++ (match r.1 with | none => " p-" | some b => " p" ++ Wire.hexOfBytes [b]))
    | some 'i' => srcOps (ignore s n) ops (acc ++ " i")
    | some 'c' =>
      let r := readChunk s
      srcOps r.2 ops (acc ++ " c" ++ Wire.hexOfBytes r.1)
    | some 'e' => srcOps s ops (acc ++ (if eof s then " e1" else " e0"))
    | _ => "bad-op"

/-- src run <k> x<content> <ops…> -/
def sourceLine : List String → String
  | "run" :: k :: x :: ops =>
    match k.toNat?, (match x.toList with | 'x' :: cs => Wire.bytesOfHexChars cs | _ => none) with
    | some kk, some content => srcOps (init content kk) ops "ok"
    | _, _ => "bad-op"
  | _ => "bad-op"

end Drv
end JV
