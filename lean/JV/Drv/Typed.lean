import JV.Drv.Common
import JV.Drv.JsonPath
import JV.Model.Typed
namespace JV
namespace Drv
open Model.Typed

def b (s : String) : Bytes := s.toUTF8.toList.map (·.toNat)

def i8 : Ty := .int (-128) 127
def u8 : Ty := .int 0 255
def i16 : Ty := .int (-32768) 32767
def u16 : Ty := .int 0 65535
def i32 : Ty := .int (-2147483648) 2147483647
def i64 : Ty := .int (-9223372036854775808) 9223372036854775807
def u64 : Ty := .int 0 18446744073709551615
def s1 : Ty := .struct [.mk (b "zeta") .str true, .mk (b "alpha") i32 true, .mk (b "mid") (.opt i32) false, .mk (b "note") (.opt .str) false]
def s2 : Ty := .struct [.mk (b "items") (.seq s1) true, .mk (b "by_name") (.map s1) true, .mk (b "flag") .bool true]
def s3 : Ty := .struct [.mk (b "id") u16 true, .mk (b "label") (.opt .str) false, .mk (b "bytes") (.opt (.seq i8)) false]

def tyOf : String → Option Ty
  | "i32" => some i32 | "u8" => some u8 | "i64" => some i64 | "u64" => some u64 | "str" => some .str | "bool" => some .bool
  | "vi32" => some (.seq i32) | "mi16" => some (.map i16) | "tup" => some (.tuple [i32, .str, .bool]) | "oi32" => some (.opt i32)
  | "vos" => some (.seq (.opt .str)) | "s1" => some s1 | "s2" => some s2 | "s3" => some s3 | "pair" => some (.pair i32 .str)
  | "arr3" => some (.array i32 3) | "vvu16" => some (.seq (.seq u16)) | "sets" => some (.set .str)
  | "enum" => some (.enum [b "red", b "green", b "blue"]) | "var" => some (.variant [i32, .str]) | "sps1" => some (.opt s1)
  | "vs1" => some (.seq s1) | "ms3" => some (.map s3)
  | _ => none

/-- ty <typeId> <format> | <json value> -/
def tyLine (toks : List String) : String :=
  match splitBar toks with
  | [id, _fmt] :: valT :: [] =>
    match tyOf id, read1 valT with
    | some t, some v =>
      match conv t (sortKeys v) with
      | .ok r => "ok " ++ Wire.render r
      | .error .conv => "err"
      | .error .unjudged => "unjudged"
    | _, _ => "bad-op"
  | _ => "bad-op"

end Drv
end JV
