import JV.Drv.Common
import JV.Drv.JsonPath
import JV.Model.Typed
namespace JV
namespace Drv
open Model.Typed

def b (s : String) : Bytes := s.toUTF8.toList.map (·.toNat)

def i8 : Ty := .int (-128) 127
def u8 : Ty := .int 0 255
def i16 : Ty := .int (-32768) 32767
def u16 : Ty := .int 0 65535
def i32 : Ty := .int (-2147483648) 2147483647
def i64 : Ty := .int (-9223372036854775808) 9223372036854775807
def u64 : Ty := .int 0 18446744073709551615
def s1 : Ty := .struct [.mk (b "zeta") .str true, .mk (b "alpha") i32 true, .mk (b "mid") (.opt i32) false, .mk (b "note") (.opt .str) false]
def s2 : Ty := .struct [.mk (b "items") (.seq s1) true, .mk (b "by_name") (.map s1) true, .mk (b "flag") .bool true]
def s3 : Ty := .struct [.mk (b "id") u16 true, .mk (b "label") (.opt .str) false, .mk (b "bytes") (.opt (.seq i8)) false]

def pis : Ty := .pair i32 .str
def s4 : Ty := .struct [.mk (b "fl") (.seq .str) true, .mk (b "li") (.seq .bool) true, .mk (b "dq") (.seq .str) true, .mk (b "pr") pis true,
  .mk (b "tp") (.tuple [i32, .str]) true, .mk (b "ar") (.array i32 2) true, .mk (b "st") (.set .str true) true, .mk (b "op") (.opt (.pair i32 i32)) false]

def tyOf : String → Option Ty
  | "i32" => some i32 | "u8" => some u8 | "i64" => some i64 | "u64" => some u64 | "str" => some .str | "bool" => some .bool
  | "vi32" => some (.seq i32) | "mi16" => some (.map i16) | "tup" => some (.tuple [i32, .str, .bool]) | "oi32" => some (.opt i32)
  | "vos" => some (.seq (.opt .str)) | "s1" => some s1 | "s2" => some s2 | "s3" => some s3 | "pair" => some (.pair i32 .str)
  | "arr3" => some (.array i32 3) | "vvu16" => some (.seq (.seq u16)) | "sets" => some (.set .str false)
  | "enum" => some (.enum [b "red", b "green", b "blue"]) | "var" => some (.variant [i32, .str]) | "sps1" => some (.opt s1)
  | "vs1" => some (.seq s1) | "ms3" => some (.map s3)
  -- the standard sequence / set containers (forward_list, list, deque, multiset, unordered_set, unordered_map)
  | "fls" => some (.seq .str) | "flp" => some (.seq pis) | "lso" => some (.seq (.opt i32)) | "lss" => some (.seq .str)
  | "dqb" => some (.seq .bool) | "dqs" => some (.seq (.opt .str)) | "msets" => some (.set .str true) | "usets" => some (.set .str false)
  | "umi" => some (.map i32) | "ovi" => some (.opt (.seq i32)) | "moi" => some (.map (.opt i32)) | "mfl" => some (.map (.seq .str))
  -- fixed shapes on their own, in each other and in containers
  | "vpair" => some (.seq pis) | "mpair" => some (.map (.pair i32 i32)) | "vtup" => some (.seq (.tuple [i32, .str]))
  | "mtup" => some (.map (.tuple [.bool, i32, .str])) | "tup1" => some (.tuple [i32]) | "tup2" => some (.tuple [.str, i32])
  | "ppair" => some (.pair (.pair i32 i32) .str) | "pvo" => some (.pair (.opt i32) (.seq .str)) | "arr2s" => some (.array .str 2)
  | "arr22" => some (.array (.array i32 2) 2) | "varr" => some (.seq (.array i32 2)) | "marr" => some (.map (.array i32 3))
  | "opair" => some (.opt pis) | "s4" => some s4
  | _ => none

/-- ty <typeId> <format> | <json value> -/
def tyLine (toks : List String) : String :=
  match splitBar toks with
  | [id, _fmt] :: valT :: [] =>
    match tyOf id, read1 valT with
    | some t, some v =>
      match conv t (sortKeys v) with
      | .ok r => "ok " ++ Wire.render r
      | .error .conv => "err"
      | .error .unjudged => "unjudged"
    | _, _ => "bad-op"
  | _ => "bad-op"

end Drv
end JV
