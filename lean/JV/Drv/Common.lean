/-
  JV.Drv.Common — helpers for the line-protocol driver (glue; not referenced by theorems).
-/
import JV.Basic.Wire
namespace JV
namespace Drv

def tokens (line : String) : List String :=
  (line.trimAscii.toString.splitOn " ").filter (· ≠ "")

def read2 (toks : List String) : Option (JVal × JVal) := do
  let (a, r1) ← Wire.readVal toks
  let (b, r2) ← Wire.readVal r1
  if r2.isEmpty then pure (a, b) else none

def read1 (toks : List String) : Option JVal := do
  let (a, r1) ← Wire.readVal toks
  if r1.isEmpty then pure a else none

mutual
  /-- canonical form of a value as `jsoncons::json` stores it: members sorted by key, first duplicate wins -/
  def sortKeys : JVal → JVal
    | .arr xs => .arr (sortList xs)
    | .obj ms => .obj (sortMembers ms)
    | v => v
  def sortList : List JVal → List JVal
    | [] => []
    | x :: xs => sortKeys x :: sortList xs
  def sortMembers : List (Bytes × JVal) → List (Bytes × JVal)
    | [] => []
    | (k, x) :: ms =>
      let rest := sortMembers ms
      Assoc.insertSorted k (sortKeys x) (Assoc.erase k rest)
end

end Drv
end JV
