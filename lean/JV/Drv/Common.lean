/-
  JV.Drv.Common — helpers for the line-protocol driver (glue; not referenced by theorems).
-/
import JV.Basic.Wire
namespace JV
namespace Drv

def tokens (line : String) : List String :=
  (line.trimAscii.toString.splitOn " ").filter (· ≠ "")

def read2 (toks : List String) : Option (JVal × JVal) := do
  let (a, r1) ← Wire.readVal toks
  let (b, r2) ← Wire.readVal r1
  if r2.isEmpty then pure (a, b) else none

def read1 (toks : List String) : Option JVal := do
  let (a, r1) ← Wire.readVal toks
  if r1.isEmpty then pure a else none

end Drv
end JV
