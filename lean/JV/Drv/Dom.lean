import JV.Drv.Common
import JV.Model.Dom
import JV.Model.Compare
namespace JV
namespace Drv
open Model.Dom

def hexK (s : String) : Option Bytes :=
  match s.toList with
  | 'k' :: cs => Wire.bytesOfHexChars cs
  | _ => none

partial def readItems : List String → Option (List (Bytes × JVal))
  | [] => some []
  | k :: rest => do
    let kb ← hexK k
    let (v, r) ← Wire.readVal rest
    let more ← readItems r
    pure ((kb, v) :: more)

def parseOp : List String → Option Op
  | "new" :: s :: rest => do let v ← read1 rest; pure (.new s.toNat! v)
  | ["copy", a, b] => some (.copy a.toNat! b.toNat!)
  | ["assign", a, b] => some (.copy a.toNat! b.toNat!)
  | ["movector", a, b] => some (.copy a.toNat! b.toNat!)
  | ["move", a, b] => some (.copy a.toNat! b.toNat!)
  | ["swap", a, b] => some (.swap a.toNat! b.toNat!)
  | ["stdswap", a, b] => some (.swap a.toNat! b.toNat!)
  | ["selfassign", a] => some (.selfAssign a.toNat!)
  | "set" :: a :: k :: rest => do let kb ← hexK k; let v ← read1 rest; pure (.set a.toNat! kb v)
  | "emplace" :: a :: k :: rest => do let kb ← hexK k; let v ← read1 rest; pure (.emplace a.toNat! kb v)
  | ["erase", a, k] => (hexK k).map (.erase a.toNat!)
  | ["find", a, k] => (hexK k).map (.find a.toNat!)
  | ["contains", a, k] => (hexK k).map (.contains a.toNat!)
  | ["count", a, k] => (hexK k).map (.count a.toNat!)
  | ["at", a, k] => (hexK k).map (.at a.toNat!)
  | ["size", a] => some (.size a.toNat!)
  | ["empty", a] => some (.isEmpty a.toNat!)
  | ["clear", a] => some (.clear a.toNat!)
  | "push" :: a :: rest => do let v ← read1 rest; pure (.push a.toNat! v)
  | "insat" :: a :: i :: rest => do let v ← read1 rest; pure (.insAt a.toNat! i.toNat! v)
  | ["eraseat", a, i] => some (.eraseAt a.toNat! i.toNat!)
  | ["eraserange", a, lo, hi] => some (.eraseRange a.toNat! lo.toNat! hi.toNat!)
  | ["resize", a, n] => some (.resize a.toNat! n.toNat!)
  | "resizev" :: a :: n :: rest => do let v ← read1 rest; pure (.resizeV a.toNat! n.toNat! v)
  | ["atidx", a, i] => some (.atIdx a.toNat! i.toNat!)
  | ["merge", a, b] => some (.merge a.toNat! b.toNat!)
  | ["mergeupd", a, b] => some (.mergeUpd a.toNat! b.toNat!)
  | "rangeins" :: a :: rest => (readItems rest).map (.rangeIns a.toNat!)
  | ["iter", a] => some (.iter a.toNat!)
  | _ => none

def showRes : Res → String
  | .none => "-"
  | .ins => "ins"
  | .upd => "upd"
  | .kept => "kept"
  | .absent => "absent"
  | .val v => Wire.render v
  | .bool b => if b then "t" else "f"
  | .nat n => toString n
  | .exc => "exc"
  | .range => "range"
  | .keys ks => if ks.isEmpty then "none" else String.join (ks.map fun k => "k" ++ Wire.hexOfBytes k ++ ",")

def splitOps (toks : List String) : List (List String) :=
  let rec go (cur : List String) (acc : List (List String)) : List String → List (List String)
    | [] => (if cur.isEmpty then acc else cur.reverse :: acc).reverse
    | "/" :: rest => go [] (if cur.isEmpty then acc else cur.reverse :: acc) rest
    | t :: rest => go (t :: cur) acc rest
  go [] [] toks

def storedOf (s : String) : Option Model.Compare.Stored :=
  match s.toList with
  | 'I' :: cs => (String.ofList cs).toInt?.bind fun v => if -(2 ^ 63 : Int) ≤ v ∧ v < 2 ^ 63 then some (.i64 v) else none
  | 'U' :: cs => (String.ofList cs).toNat?.bind fun v => if v < 2 ^ 64 then some (.u64 v) else none
  | _ => none

/-! `dom mcmp <value> <value>`: the whole of `basic_json::compare` (JV.Model.Compare.compare) with explicit storage kinds.
    tokens: n t f E(=json(), empty_object) I<dec>(int64) U<dec>(uint64) d<16 hex>(double bits) e<4 hex>(half bits)
    s<hex>(string) b<hex>(byte string) [ … ] { k<hex> <value> … }(object storage, members put in key order, first duplicate wins) -/
open Model.Compare in
def cvInsert (k : Bytes) (v : CVal) : List (Bytes × CVal) → List (Bytes × CVal)
  | [] => [(k, v)]
  | (l, y) :: ms => if keyLt k l then (k, v) :: (l, y) :: ms else if k = l then (l, y) :: ms else (l, y) :: cvInsert k v ms

def hexNat (cs : List Char) : Option Nat :=
  cs.foldlM (fun acc c => (Wire.hexVal c).map fun d => acc * 16 + d) 0

open Model.Compare in
mutual
  def parseCVal : Nat → List String → Option (CVal × List String)
    | 0, _ => none
    | _, [] => none
    | fuel + 1, tok :: rest =>
      match tok.toList with
      | ['n'] => some (.null, rest)
      | ['t'] => some (.bool true, rest)
      | ['f'] => some (.bool false, rest)
      | ['E'] => some (.emptyObj, rest)
      | ['['] => do
        let (xs, rest') ← parseCElems fuel rest
        pure (.arr xs, rest')
      | ['{'] => do
        let (ms, rest') ← parseCMembers fuel rest
        pure (.obj (ms.foldl (fun acc kv => cvInsert kv.1 kv.2 acc) []), rest')
      | 'I' :: cs => (String.ofList cs).toInt?.bind fun v => if -(2 ^ 63 : Int) ≤ v ∧ v < 2 ^ 63 then some (.i64 v, rest) else none
      | 'U' :: cs => (String.ofList cs).toNat?.bind fun v => if v < 2 ^ 64 then some (.u64 v, rest) else none
      | 'd' :: cs => (hexNat cs).bind fun v => if cs.length = 16 then some (.dbl v, rest) else none
      | 'e' :: cs => (hexNat cs).bind fun v => if cs.length = 4 then some (.half v, rest) else none
      | 's' :: cs => (Wire.bytesOfHexChars cs).map fun b => (.str b, rest)
      | 'b' :: cs => (Wire.bytesOfHexChars cs).map fun b => (.bstr b, rest)
      | _ => none
  def parseCElems : Nat → List String → Option (List CVal × List String)
    | 0, _ => none
    | _, [] => none
    | fuel + 1, tok :: rest =>
      if tok = "]" then some ([], rest) else do
        let (x, r1) ← parseCVal fuel (tok :: rest)
        let (xs, r2) ← parseCElems fuel r1
        pure (x :: xs, r2)
  def parseCMembers : Nat → List String → Option (List (Bytes × CVal) × List String)
    | 0, _ => none
    | _, [] => none
    | fuel + 1, tok :: rest =>
      if tok = "}" then some ([], rest) else
        match tok.toList with
        | 'k' :: cs => do
          let k ← Wire.bytesOfHexChars cs
          let (x, r1) ← parseCVal fuel rest
          let (ms, r2) ← parseCMembers fuel r1
          pure ((k, x) :: ms, r2)
        | _ => none
end

open Model.Compare in
def mcmpLine (toks : List String) : String :=
  match parseCVal (toks.length + 1) toks with
  | some (a, r1) =>
    match parseCVal (r1.length + 1) r1 with
    | some (b, []) =>
      let c := Model.Compare.compare a b
      let rc := Model.Compare.compare b a
      "ok c" ++ toString c ++ (if opEq a b then " eq" else " ne") ++ (if opNe a b then " NE" else " EQ") ++ (if opLt a b then " lt" else " nl")
        ++ (if opGt a b then " gt" else " ng") ++ (if opLe a b then " le" else " nle") ++ (if opGe a b then " ge" else " nge")
        ++ " r" ++ toString rc
    | _ => "bad-op"
  | none => "bad-op"

/-- dom seq <j|o> <nslots> op / op / … -/
def domLine : List String → String
  | "seq" :: kind :: n :: rest =>
    let ordered := kind = "o"
    match (splitOps rest).mapM parseOp with
    | none => "bad-op"
    | some ops =>
      let pool := List.replicate n.toNat! (JVal.obj [])
      let r := run ordered pool ops
      "ok" ++ String.join (r.1.map fun x => " <" ++ showRes x ++ ">") ++ " || " ++ " ; ".intercalate (r.2.map Wire.render)
  | ["icmp", a, b] =>
    match storedOf a, storedOf b with
    | some x, some y =>
      let c := Model.Compare.compareStored x y
      "ok c" ++ toString c ++ (if c = 0 then " eq" else " ne") ++ (if c < 0 then " lt" else " nl")
    | _, _ => "bad-op"
  | "mcmp" :: rest => mcmpLine rest
  | _ => ""

end Drv
end JV
