import JV.Drv.Common
import JV.Drv.JsonPath
import JV.Model.Csv
namespace JV
namespace Drv
open Model.Csv

def optsOfToks (toks : List String) : Option (Opts × Style × Bytes) := do
  let mut d := 44; let mut q := 34; let mut e := 34; let mut st := Style.minimal; let mut l : Bytes := [10]
  for t in toks do
    match t.toList with
    | 'd' :: cs => d := (String.ofList cs).toNat!
    | 'q' :: cs => q := (String.ofList cs).toNat!
    | 'e' :: cs => e := (String.ofList cs).toNat!
    | ['s', 'm'] => st := .minimal
    | ['s', 'a'] => st := .all
    | ['s', 'n'] => st := .nonnumeric
    | ['s', 'x'] => st := .none
    | 'l' :: cs => l := (Wire.bytesOfHexChars cs).getD [10]
    | 'i' :: _ => pure ()
    | _ => none
  pure ({ delim := d, quote := q, esc := e }, st, l)

def rowStrings : JVal → Option (List Bytes)
  | .arr xs => xs.mapM fun x => match x with | .str s => some s | _ => none
  | _ => none

/-- records: lines ended by LF, CR or CRLF; empty lines are skipped (`ignore_empty_lines`) -/
partial def parseRecords (o : Opts) (input : Bytes) (acc : List (List Bytes)) : Option (List (List Bytes)) :=
  match input with
  | [] => some acc.reverse
  | 13 :: 10 :: r => parseRecords o r acc
  | 13 :: r => parseRecords o r acc
  | 10 :: r => parseRecords o r acc
  | _ =>
    match scanRow o (input.length + 1) input with
    | .bad => none
    | .eof => some (([[255]] : List Bytes) :: acc.reverse)      -- marker: the input ends inside a quoted field (outside the model)
    | .ok (fields, rest) => parseRecords o rest (if fields.isEmpty then acc else fields :: acc)

/-- csvm enc <opts…> | <table>     csvm dec <opts…> | <texthex> -/
def csvmLine (toks : List String) : String :=
  match splitBar toks with
  | ("enc" :: optT) :: tabT :: [] =>
    match optsOfToks optT, read1 tabT with
    | some (o, st, l), some (.arr rows) =>
      match rows.mapM rowStrings with
      | some rs => "ok " ++ Wire.hexOfBytes (rs.flatMap fun r => writeRow o st r ++ l)
      | none => "skip"
    | _, _ => "bad-op"
  | ("dec" :: optT) :: [[hex]] =>
    match optsOfToks optT, Wire.bytesOfHex hex with
    | some (o, _, _), some text =>
      match parseRecords o text [] with
      | some ([[255]] :: _) => "eof-in-quotes"
      | some rows => "ok " ++ Wire.render (.arr (rows.map fun r => .arr (r.map .str)))
      | none => "err"
    | _, _ => "bad-op"
  | _ => "bad-op"

end Drv
end JV
