import JV.Drv.Common
import JV.Model.Pointer
import JV.Model.Unflatten
import JV.Spec.Rfc6901
namespace JV
namespace Drv
open Model.Pointer

def tokList (ts : List Bytes) : String := " ".intercalate (ts.map fun t => "t" ++ Wire.hexOfBytes t)

def readToks : List String → Option (List Bytes)
  | [] => some []
  | t :: ts =>
    match t.toList with
    | 't' :: cs => do
      let b ← Wire.bytesOfHexChars cs
      let r ← readToks ts
      pure (b :: r)
    | _ => none

def hexArg (s : String) : Option Bytes :=
  match s.toList with
  | 'x' :: cs => Wire.bytesOfHexChars cs
  | _ => none

def showMut (r : Option PErr × JVal) : String :=
  (match r.1 with | none => "ok " | some _ => "err ") ++ Wire.render r.2

/-- ptr parse x<hex> | ptr tostr t<hex>… | ptr get <j|o> x<loc> <doc> | ptr contains …
    ptr add|addia|replace <j|o> <0|1> x<loc> <doc> <val> | ptr remove <j|o> <0|1> x<loc> <doc> | ptr flatten <j|o> <doc>
    ptr unflat|flatrt <j|o> <0|1> <doc>   (1 = unflatten_options::assume_object; flatrt = unflatten(flatten(doc))) -/
def pointerLine : List String → String
  | ["parse", x] =>
    match hexArg x with
    | none => "bad-op"
    | some s =>
      match parse s with
      | .error _ => "err"
      | .ok ts => "ok " ++ tokList ts ++ " | x" ++ Wire.hexOfBytes (Model.Pointer.toString ts)
  | "tostr" :: ts =>
    match readToks ts with
    | none => "bad-op"
    | some toks =>
      let s := Model.Pointer.toString toks
      match parse s with
      | .error _ => "ok x" ++ Wire.hexOfBytes s ++ " | err"
      | .ok ts' => "ok x" ++ Wire.hexOfBytes s ++ " | " ++ tokList ts'
  | "sget" :: _kind :: x :: rest =>
    match hexArg x, read1 rest with
    | some loc, some d =>
      match Spec.Rfc6901.tokens loc with
      | none => "err"
      | some ts =>
        match Spec.Rfc6901.eval (sortKeys d) ts with
        | some v => "ok " ++ Wire.render v
        | none => "err"
    | _, _ => "bad-op"
  | "sremove" :: _kind :: _c :: x :: rest =>
    match hexArg x, read1 rest with
    | some loc, some d =>
      match Spec.Rfc6901.tokens loc with
      | none => "err"
      | some ts =>
        match Spec.Rfc6901.update .remove (sortKeys d) ts with
        | some v => "ok " ++ Wire.render v
        | none => "err"
    | _, _ => "bad-op"
  | "get" :: _kind :: x :: rest =>
    match hexArg x, read1 rest with
    | some loc, some d =>
      match getStr d loc with
      | .ok v => "ok " ++ Wire.render v
      | .error _ => "err"
    | _, _ => "bad-op"
  | "contains" :: _kind :: x :: rest =>
    match hexArg x, read1 rest with
    | some loc, some d =>
      (match getStr d loc with
      | .ok _ => "ok t"
      | .error _ => "ok f")
    | _, _ => "bad-op"
  | "remove" :: kind :: _c :: x :: rest =>
    match hexArg x, read1 rest with
    | some loc, some d => showMut (applyStr (kind = "o") false .remove d loc)
    | _, _ => "bad-op"
  | "flatten" :: kind :: rest =>
    match read1 rest with
    | some d => "ok " ++ Wire.render (flatten (kind = "o") d)
    | none => "bad-op"
  | "unflat" :: kind :: c :: rest =>
    match read1 rest with
    | some d =>
      (match unflatten (kind = "o") (c = "1") d with
      | .ok v => "ok " ++ Wire.render v
      | .error _ => "err")
    | none => "bad-op"
  | "flatrt" :: kind :: c :: rest =>
    match read1 rest with
    | some d =>
      (match unflatten (kind = "o") (c = "1") (flatten (kind = "o") d) with
      | .ok v => "ok " ++ Wire.render v
      | .error _ => "err")
    | none => "bad-op"
  | op :: kind :: c :: x :: rest =>
    match hexArg x, read2 rest with
    | some loc, some (d, v) =>
      let create := c = "1"
      let ordered := kind = "o"
      if op = "add" then showMut (applyStr ordered create (.add v) d loc)
      else if op = "addia" then showMut (applyStr ordered create (.addIfAbsent v) d loc)
      else if op = "replace" then showMut (applyStr ordered create (.replace v) d loc)
      else
        let sop : Option Spec.Rfc6901.Op :=
          if op = "sadd" then some (.add (sortKeys v)) else if op = "saddia" then some (.addIfAbsent (sortKeys v))
          else if op = "sreplace" then some (.replace (sortKeys v)) else none
        match sop, Spec.Rfc6901.tokens loc with
        | none, _ => "bad-op"
        | some _, none => "err"
        | some o, some ts =>
          match Spec.Rfc6901.update o (sortKeys d) ts with
          | some r => "ok " ++ Wire.render r
          | none => "err"
    | _, _ => "bad-op"
  | _ => "bad-op"

end Drv
end JV
