import JV.Drv.Common
import JV.Spec.Rfc8259
import JV.Model.JsonEscape
import JV.Model.JsonEncode
namespace JV
namespace Drv
open Spec.Rfc8259

mutual
  def jtTokens : JT → List String
    | .null => ["n"]
    | .bool true => ["t"]
    | .bool false => ["f"]
    | .num lit => ["N" ++ Wire.hexOfBytes lit]
    | .str s => ["s" ++ Wire.hexOfBytes s]
    | .arr xs => "[" :: (jtList xs ++ ["]"])
    | .obj ms => "{" :: (jtMembers ms ++ ["}"])
  def jtList : List JT → List String
    | [] => []
    | x :: xs => jtTokens x ++ jtList xs
  def jtMembers : List (Bytes × JT) → List String
    | [] => []
    | (k, x) :: ms => ("k" ++ Wire.hexOfBytes k) :: (jtTokens x ++ jtMembers ms)
end

/-- flags: c<0|1>t<0|1>d<depth> (other letters ignored: they concern number storage, not the grammar) -/
partial def parseFlagsGo (cs : List Char) (fl : Flags) : Flags :=
  match cs with
  | [] => fl
  | k :: rest =>
    let digits := rest.takeWhile Char.isDigit
    let rest' := rest.dropWhile Char.isDigit
    let v := (String.ofList digits).toNat!
    let fl' := if k = 'c' then { fl with comments := v != 0 }
               else if k = 't' then { fl with trailingComma := v != 0 }
               else if k = 'd' then { fl with maxDepth := v }
               else fl
    parseFlagsGo rest' fl'

def parseFlags (s : String) : Flags :=
  parseFlagsGo s.toList { comments := true, trailingComma := false, maxDepth := 1024 }


/-! ### `jt dump <j|o> <opts> <wire value>`: the encoder model on the harness's own op line -/

/-- wire value -> what dump sees (`Model.JsonEncode`): integers by their decimal text, bigint/bigdec-tagged strings as
    number literals, other strings as strings; `none` for tokens outside the model's domain (doubles, halfs, byte strings, other tags) -/
partial def readJT : List String → Option (JT × List String)
  | [] => none
  | tok :: rest =>
    let (body, tag) := match tok.splitOn "@" with
      | [b, t] => (b, t)
      | _ => (tok, "")
    match body.toList with
    | ['n'] => some (.null, rest)
    | ['t'] => some (.bool true, rest)
    | ['f'] => some (.bool false, rest)
    | ['['] => readElems rest []
    | ['{'] => readMembers rest []
    | 'i' :: cs => if tag = "" then (String.ofList cs).toInt?.map fun i => (.num ((toString i).toList.map Char.toNat), rest) else none
    | 's' :: cs =>
      match Wire.bytesOfHexChars cs with
      | none => none
      | some b => if tag = "" then some (.str b, rest) else if tag = "bigint" || tag = "bigdec" then some (.num b, rest) else none
    | _ => none
where
  readElems : List String → List JT → Option (JT × List String)
    | [], _ => none
    | tok :: rest, acc =>
      if tok = "]" then some (.arr acc.reverse, rest) else
        match readJT (tok :: rest) with
        | none => none
        | some (x, r) => readElems r (x :: acc)
  readMembers : List String → List (Bytes × JT) → Option (JT × List String)
    | [], _ => none
    | tok :: rest, acc =>
      if tok = "}" then some (.obj acc.reverse, rest) else
        match tok.toList with
        | 'k' :: cs =>
          match Wire.bytesOfHexChars cs, readJT rest with
          | some k, some (x, r) => readMembers r ((k, x) :: acc)
          | _, _ => none
        | _ => none

/-- `p=1,is=4,...` of harness/jtext.cpp dump_opts; `none` for a key the model does not cover (ea=1) -/
def parseDumpOpts (spec : String) : Option (Bool × Model.JsonEncode.PrettyOpts) :=
  (spec.splitOn ",").foldl (init := some (false, {})) fun acc kv =>
    match acc with
    | none => none
    | some (p, o) =>
      if kv = "" || kv = "-" then some (p, o) else
      match kv.splitOn "=" with
      | [k, v] =>
        let n := v.toNat?.getD 0
        if k = "p" then some (n != 0, o)
        else if k = "is" then some (p, { o with indentSize := n % 256 })
        else if k = "ic" then some (p, { o with indentChar := n })
        else if k = "sc" then some (p, { o with colon := n })
        else if k = "sm" then some (p, { o with comma := n })
        else if k = "po" then some (p, { o with padObj := n != 0 })
        else if k = "pa" then some (p, { o with padArr := n != 0 })
        else if k = "rl" then some (p, { o with root := n })
        else if k = "oo" then some (p, { o with oo := n })
        else if k = "ao" then some (p, { o with ao := n })
        else if k = "oa" then some (p, { o with oa := n })
        else if k = "aa" then some (p, { o with aa := n })
        else if k = "ll" then some (p, { o with limit := n })
        else if k = "nl" then (Wire.bytesOfHexChars v.toList).map fun b => (p, { o with newLine := b })
        else if k = "ea" then (if n = 0 then some (p, o) else none)
        else if k = "es" then some (p, { o with solidus := n != 0 })
        else none
      | _ => none

/-- answers `ok x<text> cx<compact text>` (the first and last field of the harness's answer), or `skip` outside the model's domain -/
def dumpLine : List String → String
  | _kind :: spec :: toks =>
    match parseDumpOpts spec, readJT toks with
    | some (p, o), some (v, []) =>
      let c := Model.JsonEncode.compactS o.solidus v
      let t := if p then Model.JsonEncode.pretty o v else c
      "ok x" ++ Wire.hexOfBytes t ++ " cx" ++ Wire.hexOfBytes c
    | _, _ => "skip"
  | _ => "bad-op"

/-- jt sparse <flags> x<text> -/
def jsonTextLine : List String → String
  | "dump" :: rest => dumpLine rest
  | ["sparse", fl, x] =>
    match hexArgX x with
    | none => "bad-op"
    | some s =>
      match parseText (parseFlags fl) s with
      | some v => "ok " ++ " ".intercalate (jtTokens v)
      | none => "err"
  | ["esc", ea, es, x] =>
    match hexArgX x with
    | none => "bad-op"
    | some s =>
      match Model.JsonEscape.escapeString (ea = "1") (es = "1") s with
      | some e => "ok x" ++ Wire.hexOfBytes e
      | none => "err"
  | ["unesc", x] =>
    match hexArgX x with
    | none => "bad-op"
    | some s =>
      match parseString (34 :: (s ++ [34])) with
      | some (b, []) => "ok x" ++ Wire.hexOfBytes b
      | _ => "err"
  | _ => ""
where
  hexArgX (s : String) : Option Bytes :=
    match s.toList with
    | 'x' :: cs => Wire.bytesOfHexChars cs
    | _ => none

end Drv
end JV
