import JV.Drv.Common
import JV.Spec.Rfc8259
import JV.Model.JsonEscape
namespace JV
namespace Drv
open Spec.Rfc8259

mutual
  def jtTokens : JT → List String
    | .null => ["n"]
    | .bool true => ["t"]
    | .bool false => ["f"]
    | .num lit => ["N" ++ Wire.hexOfBytes lit]
    | .str s => ["s" ++ Wire.hexOfBytes s]
    | .arr xs => "[" :: (jtList xs ++ ["]"])
    | .obj ms => "{" :: (jtMembers ms ++ ["}"])
  def jtList : List JT → List String
    | [] => []
    | x :: xs => jtTokens x ++ jtList xs
  def jtMembers : List (Bytes × JT) → List String
    | [] => []
    | (k, x) :: ms => ("k" ++ Wire.hexOfBytes k) :: (jtTokens x ++ jtMembers ms)
end

/-- flags: c<0|1>t<0|1>d<depth> (other letters ignored: they concern number storage, not the grammar) -/
partial def parseFlagsGo (cs : List Char) (fl : Flags) : Flags :=
  match cs with
  | [] => fl
  | k :: rest =>
    let digits := rest.takeWhile Char.isDigit
    let rest' := rest.dropWhile Char.isDigit
    let v := (String.ofList digits).toNat!
    let fl' := if k = 'c' then { fl with comments := v != 0 }
               else if k = 't' then { fl with trailingComma := v != 0 }
               else if k = 'd' then { fl with maxDepth := v }
               else fl
    parseFlagsGo rest' fl'

def parseFlags (s : String) : Flags :=
  parseFlagsGo s.toList { comments := true, trailingComma := false, maxDepth := 1024 }

/-- jt sparse <flags> x<text> -/
def jsonTextLine : List String → String
  | ["sparse", fl, x] =>
    match hexArgX x with
    | none => "bad-op"
    | some s =>
      match parseText (parseFlags fl) s with
      | some v => "ok " ++ " ".intercalate (jtTokens v)
      | none => "err"
  | ["esc", ea, es, x] =>
    match hexArgX x with
    | none => "bad-op"
    | some s =>
      match Model.JsonEscape.escapeString (ea = "1") (es = "1") s with
      | some e => "ok x" ++ Wire.hexOfBytes e
      | none => "err"
  | ["unesc", x] =>
    match hexArgX x with
    | none => "bad-op"
    | some s =>
      match parseString (34 :: (s ++ [34])) with
      | some (b, []) => "ok x" ++ Wire.hexOfBytes b
      | _ => "err"
  | _ => ""
where
  hexArgX (s : String) : Option Bytes :=
    match s.toList with
    | 'x' :: cs => Wire.bytesOfHexChars cs
    | _ => none

end Drv
end JV
