import JV.Drv.Common
import JV.Drv.JsonPath
import JV.Spec.JsonSchema
namespace JV
namespace Drv
open Spec.JsonSchema

def typeOf : String → Option TypeName
  | "null" => some .null | "boolean" => some .boolean | "integer" => some .integer | "number" => some .number
  | "string" => some .string | "array" => some .array | "object" => some .object | _ => none

def keyTok (t : String) : Option Bytes :=
  match t.toList with
  | 'K' :: cs => Wire.bytesOfHexChars cs
  | _ => none

partial def rdKeys : Nat → List String → Option (List Bytes × List String)
  | 0, r => some ([], r)
  | n + 1, t :: r => do let k ← keyTok t; let (ks, r') ← rdKeys n r; pure (k :: ks, r')
  | _, [] => none

partial def rdVals : Nat → List String → Option (List JVal × List String)
  | 0, r => some ([], r)
  | n + 1, r => do let (v, r1) ← Wire.readVal r; let (vs, r2) ← rdVals n r1; pure (v :: vs, r2)

mutual
  partial def rdSchema : List String → Option (Schema × List String)
    | "B" :: "t" :: r => some (.bool true, r)
    | "B" :: "f" :: r => some (.bool false, r)
    | "N" :: n :: r => do
      let (kws, r1) ← rdKws n.toNat! r
      let (up, r2) ← (match r1 with
        | "UP" :: r' => do let (s, r'') ← rdSchema r'; pure (some s, r'')
        | "NOUP" :: r' => some (none, r')
        | _ => none)
      let (ui, r3) ← (match r2 with
        | "UI" :: r' => do let (s, r'') ← rdSchema r'; pure (some s, r'')
        | "NOUI" :: r' => some (none, r')
        | _ => none)
      pure (.node kws up ui, r3)
    | _ => none
  partial def rdSchemas : Nat → List String → Option (List Schema × List String)
    | 0, r => some ([], r)
    | n + 1, r => do let (s, r1) ← rdSchema r; let (ss, r2) ← rdSchemas n r1; pure (s :: ss, r2)
  partial def rdKws : Nat → List String → Option (List Kw × List String)
    | 0, r => some ([], r)
    | n + 1, r => do let (k, r1) ← rdKw r; let (ks, r2) ← rdKws n r1; pure (k :: ks, r2)
  partial def rdProps : Nat → List String → Option (List PropS × List String)
    | 0, r => some ([], r)
    | n + 1, t :: r =>
      match t.toList with
      | 'P' :: cs => do
        let k ← Wire.bytesOfHexChars cs
        let (s, r1) ← rdSchema r
        let (ps, r2) ← rdProps n r1
        pure (.mk k s :: ps, r2)
      | _ => none
    | _, [] => none
  partial def rdDeps : Nat → List String → Option (List (Bytes × List Bytes) × List String)
    | 0, r => some ([], r)
    | n + 1, t :: m :: r => do
      let k ← keyTok t
      let (ks, r1) ← rdKeys m.toNat! r
      let (ds, r2) ← rdDeps n r1
      pure ((k, ks) :: ds, r2)
    | _, _ => none
  partial def rdKw : List String → Option (Kw × List String)
    | "TYPE" :: n :: r => do
      let names := r.take n.toNat!
      let ts ← names.mapM typeOf
      pure (.type ts, r.drop n.toNat!)
    | "ENUM" :: n :: r => do let (vs, r1) ← rdVals n.toNat! r; pure (.enum vs, r1)
    | "CONST" :: r => do let (v, r1) ← Wire.readVal r; pure (.const v, r1)
    | "MIN" :: i :: r => i.toInt?.map fun x => (.minimum x, r)
    | "MAX" :: i :: r => i.toInt?.map fun x => (.maximum x, r)
    | "XMIN" :: i :: r => i.toInt?.map fun x => (.exclusiveMinimum x, r)
    | "XMAX" :: i :: r => i.toInt?.map fun x => (.exclusiveMaximum x, r)
    | "MULT" :: i :: r => i.toInt?.map fun x => (.multipleOf x, r)
    | "MINLEN" :: i :: r => some (.minLength i.toNat!, r)
    | "MAXLEN" :: i :: r => some (.maxLength i.toNat!, r)
    | "MINITEMS" :: i :: r => some (.minItems i.toNat!, r)
    | "MAXITEMS" :: i :: r => some (.maxItems i.toNat!, r)
    | "UNIQ" :: b :: r => some (.uniqueItems (b = "t"), r)
    | "ITEMS" :: n :: r => do
      let (pre, r1) ← rdSchemas n.toNat! r
      match r1 with
      | "REST" :: r2 => do let (s, r3) ← rdSchema r2; pure (.items pre (some s), r3)
      | "NOREST" :: r2 => some (.items pre none, r2)
      | _ => none
    | "CONTAINS" :: r => do
      let (s, r1) ← rdSchema r
      match r1 with
      | mn :: mx :: r2 => some (.contains s mn.toNat! (if mx = "_" then none else some mx.toNat!), r2)
      | _ => none
    | "PROPS" :: n :: r => do
      let (ps, r1) ← rdProps n.toNat! r
      match r1 with
      | "ADD" :: r2 => do let (s, r3) ← rdSchema r2; pure (.props ps (some s), r3)
      | "NOADD" :: r2 => some (.props ps none, r2)
      | _ => none
    | "REQ" :: n :: r => do let (ks, r1) ← rdKeys n.toNat! r; pure (.required ks, r1)
    | "MINPROPS" :: i :: r => some (.minProperties i.toNat!, r)
    | "MAXPROPS" :: i :: r => some (.maxProperties i.toNat!, r)
    | "PNAMES" :: r => do let (s, r1) ← rdSchema r; pure (.propertyNames s, r1)
    | "DEPREQ" :: n :: r => do let (ds, r1) ← rdDeps n.toNat! r; pure (.dependentRequired ds, r1)
    | "ALLOF" :: n :: r => do let (ss, r1) ← rdSchemas n.toNat! r; pure (.allOf ss, r1)
    | "ANYOF" :: n :: r => do let (ss, r1) ← rdSchemas n.toNat! r; pure (.anyOf ss, r1)
    | "ONEOF" :: n :: r => do let (ss, r1) ← rdSchemas n.toNat! r; pure (.oneOf ss, r1)
    | "NOT" :: r => do let (s, r1) ← rdSchema r; pure (.not s, r1)
    | "COND" :: r => do
      let (i, r1) ← rdSchema r
      let (t, r2) ← (match r1 with
        | "T" :: r' => do let (s, r'') ← rdSchema r'; pure (some s, r'')
        | "NOT_T" :: r' => some (none, r')
        | _ => none)
      let (e, r3) ← (match r2 with
        | "E" :: r' => do let (s, r'') ← rdSchema r'; pure (some s, r'')
        | "NOE" :: r' => some (none, r')
        | _ => none)
      pure (.cond i t e, r3)
    | _ => none
end

/-- js <draft> | <schema json> | <instance> | <ast> -/
def jsLine (toks : List String) : String :=
  match splitBar toks with
  | _ :: _schemaT :: instT :: astT :: [] =>
    match read1 instT, rdSchema astT with
    | some inst, some (s, []) => if valid s (sortKeys inst) then "ok valid" else "ok invalid"
    | _, _ => "bad-op"
  | _ => "bad-op"

end Drv
end JV
