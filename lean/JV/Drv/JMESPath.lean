import JV.Drv.Common
import JV.Drv.JsonPath
import JV.Spec.JMESPath
namespace JV
namespace Drv
open Spec.JMESPath

def fnOf : String → Fn
  | "abs" => .abs | "contains" => .contains | "ends_with" => .endsWith | "starts_with" => .startsWith | "join" => .join
  | "keys" => .keys | "length" => .length | "map" => .map | "max" => .max | "min" => .min | "max_by" => .maxBy | "min_by" => .minBy
  | "merge" => .merge | "not_null" => .notNull | "reverse" => .reverse | "sort" => .sort | "sort_by" => .sortBy | "sum" => .sum
  | "to_array" => .toArray | "to_number" => .toNumber | "to_string" => .toString | "type" => .type | "values" => .values
  | _ => .unknown

mutual
  partial def rdExpr : List String → Option (Expr × List String)
    | "CH" :: r => do
      let (st, r1) ← rdStart r
      match r1 with
      | n :: r2 => do let (ss, r3) ← rdSteps n.toNat! r2; pure (.chain st ss, r3)
      | [] => none
    | "PIPE" :: r => do let (a, r1) ← rdExpr r; let (b, r2) ← rdExpr r1; pure (.pipe a b, r2)
    | "OR" :: r => do let (a, r1) ← rdExpr r; let (b, r2) ← rdExpr r1; pure (.or a b, r2)
    | "AND" :: r => do let (a, r1) ← rdExpr r; let (b, r2) ← rdExpr r1; pure (.and a b, r2)
    | "NOT" :: r => do let (a, r1) ← rdExpr r; pure (.not a, r1)
    | "FLATX" :: r => do
      let (a, r1) ← rdExpr r
      match r1 with
      | n :: r2 => do let (ss, r3) ← rdSteps n.toNat! r2; pure (.flat a ss, r3)
      | [] => none
    | op :: r =>
      let o : Option CmpOp := match op with
        | "EQ" => some .eq | "NE" => some .ne | "LT" => some .lt | "LE" => some .le | "GT" => some .gt | "GE" => some .ge | _ => none
      match o with
      | some o => do let (a, r1) ← rdExpr r; let (b, r2) ← rdExpr r1; pure (.cmp o a b, r2)
      | none => none
    | [] => none
  partial def rdStart : List String → Option (Start × List String)
    | "CUR" :: r => some (.current, r)
    | "LIT" :: r => do let (v, r1) ← Wire.readVal r; pure (.lit v, r1)
    | "PAR" :: r => do let (e, r1) ← rdExpr r; pure (.paren e, r1)
    | "CALL" :: f :: n :: r => do let (as, r1) ← rdArgs n.toNat! r; pure (.call (fnOf f) as, r1)
    | "ML" :: n :: r => do let (es, r1) ← rdExprs n.toNat! r; pure (.mlist es, r1)
    | "MH" :: n :: r => do let (kvs, r1) ← rdKVs n.toNat! r; pure (.mhash kvs, r1)
    | t :: r =>
      match t.toList with
      | 'I' :: 'D' :: cs => (Wire.bytesOfHexChars cs).map fun k => (.ident k, r)
      | _ => none
    | [] => none
  partial def rdSteps : Nat → List String → Option (List Step × List String)
    | 0, r => some ([], r)
    | n + 1, r => do let (s, r1) ← rdStep r; let (ss, r2) ← rdSteps n r1; pure (s :: ss, r2)
  partial def rdStep : List String → Option (Step × List String)
    | "STAR" :: r => some (.star, r)
    | "OSTAR" :: r => some (.objStar, r)
    | "SL" :: a :: b :: c :: r => do
      let st ← optInt a; let sp ← optInt b; let step ← c.toInt?
      pure (.slice { start := st, stop := sp, step := step }, r)
    | "FILT" :: r => do let (e, r1) ← rdExpr r; pure (.filter e, r1)
    | "ML" :: n :: r => do let (es, r1) ← rdExprs n.toNat! r; pure (.mlist es, r1)
    | "MH" :: n :: r => do let (kvs, r1) ← rdKVs n.toNat! r; pure (.mhash kvs, r1)
    | "CALL" :: f :: n :: r => do let (as, r1) ← rdArgs n.toNat! r; pure (.call (fnOf f) as, r1)
    | t :: r =>
      match t.toList with
      | 'F' :: cs => (Wire.bytesOfHexChars cs).map fun k => (.field k, r)
      | 'I' :: 'X' :: cs => (String.ofList cs).toInt?.map fun i => (.index i, r)
      | _ => none
    | [] => none
  partial def rdArgs : Nat → List String → Option (List Arg × List String)
    | 0, r => some ([], r)
    | n + 1, "V" :: r => do let (e, r1) ← rdExpr r; let (as, r2) ← rdArgs n r1; pure (.val e :: as, r2)
    | n + 1, "R" :: r => do let (e, r1) ← rdExpr r; let (as, r2) ← rdArgs n r1; pure (.ref e :: as, r2)
    | _, _ => none
  partial def rdExprs : Nat → List String → Option (List Expr × List String)
    | 0, r => some ([], r)
    | n + 1, r => do let (e, r1) ← rdExpr r; let (es, r2) ← rdExprs n r1; pure (e :: es, r2)
  partial def rdKVs : Nat → List String → Option (List KV × List String)
    | 0, r => some ([], r)
    | n + 1, t :: r =>
      match t.toList with
      | 'K' :: cs => do
        let k ← Wire.bytesOfHexChars cs
        let (e, r1) ← rdExpr r
        let (kvs, r2) ← rdKVs n r1
        pure (.mk k e :: kvs, r2)
      | _ => none
    | _, [] => none
end

def showErr : Err → String
  | .invalidType => "invalid-type" | .invalidArity => "invalid-arity" | .unknownFunction => "unknown-function"
  | .invalidValue => "invalid-value" | .unjudged => "unjudged"

/-- jm s <exprhex> | <doc> | <ast> -/
def jmLine (toks : List String) : String :=
  match splitBar toks with
  | ("s" :: _) :: docT :: astT :: [] =>
    match read1 docT, rdExpr astT with
    | some doc, some (e, []) =>
      match search e doc with
      | .ok v => "ok " ++ Wire.render v
      | .error err => "err " ++ showErr err
    | _, _ => "bad-op"
  | _ => "bad-op"

end Drv
end JV
