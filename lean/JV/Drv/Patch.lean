import JV.Drv.Common
import JV.Model.Patch
import JV.Spec.Rfc6902
namespace JV
namespace Drv
open Model.Patch

/-- patch apply <j|o> <doc> <patch> | patch spec <j|o> <doc> <patch> | patch diff <j|o> <a> <b> | patch difflaw <j|o> <a> <b> -/
def patchLine : List String → String
  | op :: kind :: rest =>
    let ordered := kind = "o"
    match read2 rest with
    | none => "bad-op"
    | some (a, b) =>
      if op = "apply" then
        let r := applyPatch ordered a b
        (match r.1 with | none => "ok " | some _ => "err ") ++ Wire.render r.2
      else if op = "spec" then
        match Spec.Rfc6902.applyPatch (sortKeys a) (sortKeys b) with
        | some d => "ok " ++ Wire.render d
        | none => "err"
      else if op = "diff" then "ok " ++ Wire.render (.arr (fromDiff ordered [] a b))
      else if op = "difflaw" then
        let r := applyPatch ordered a (.arr (fromDiff ordered [] a b))
        (match r.1 with | none => "ok " | some _ => "err ") ++ Wire.render r.2
      else "bad-op"
  | _ => "bad-op"

end Drv
end JV
