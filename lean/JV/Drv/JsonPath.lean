import JV.Drv.Common
import JV.Model.JsonPath
namespace JV
namespace Drv
open Model.JsonPath

def hexAfter (s : String) (n : Nat) : Option Bytes := Wire.bytesOfHexChars (s.toList.drop n)

def optInt (s : String) : Option (Option Int) := if s = "_" then some none else s.toInt?.map some

partial def readFSteps : Nat → List String → Option (List FStep × List String)
  | 0, r => some ([], r)
  | n + 1, t :: r =>
    match t.toList with
    | 'n' :: cs => do let k ← Wire.bytesOfHexChars cs; let (m, r') ← readFSteps n r; pure (.name k :: m, r')
    | 'i' :: cs => do let i ← (String.ofList cs).toInt?; let (m, r') ← readFSteps n r; pure (.idx i :: m, r')
    | _ => none
  | _, [] => none

partial def readFE : List String → Option (FE × List String)
  | "L" :: r => do let (v, r') ← Wire.readVal r; pure (.lit v, r')
  | "P@" :: n :: r => do let (s, r') ← readFSteps n.toNat! r; pure (.path false s, r')
  | "P$" :: n :: r => do let (s, r') ← readFSteps n.toNat! r; pure (.path true s, r')
  | "NOT" :: r => do let (e, r') ← readFE r; pure (.not e, r')
  | "AND" :: r => do let (a, r1) ← readFE r; let (b, r2) ← readFE r1; pure (.and a b, r2)
  | "OR" :: r => do let (a, r1) ← readFE r; let (b, r2) ← readFE r1; pure (.or a b, r2)
  | op :: r =>
    let o : Option CmpOp := match op with
      | "EQ" => some .eq | "NE" => some .ne | "LT" => some .lt | "LE" => some .le | "GT" => some .gt | "GE" => some .ge | _ => none
    match o with
    | some o => do let (a, r1) ← readFE r; let (b, r2) ← readFE r1; pure (.cmp o a b, r2)
    | none => none
  | [] => none

partial def readSel : List String → Option (Sel × List String)
  | "W" :: r => some (.wild, r)
  | "S" :: a :: b :: c :: r => do
    let st ← optInt a; let sp ← optInt b; let step ← c.toInt?
    pure (.slice { start := st, stop := sp, step := step }, r)
  | "F" :: r => do let (e, r') ← readFE r; pure (.filter e, r')
  | t :: r =>
    match t.toList with
    | 'N' :: cs => (Wire.bytesOfHexChars cs).map fun k => (.name k, r)
    | 'I' :: cs => (String.ofList cs).toInt?.map fun i => (.index i, r)
    | _ => none
  | [] => none

partial def readSels : Nat → List String → Option (List Sel × List String)
  | 0, r => some ([], r)
  | n + 1, r => do let (s, r1) ← readSel r; let (m, r2) ← readSels n r1; pure (s :: m, r2)

partial def readSegs : List String → Option (List Seg)
  | [] => some []
  | "C" :: n :: r => do let (s, r') ← readSels n.toNat! r; let m ← readSegs r'; pure (.child s :: m)
  | "D" :: n :: r => do let (s, r') ← readSels n.toNat! r; let m ← readSegs r'; pure (.desc s :: m)
  | _ => none

/-- `escape_string` of jsonpath_utilities.hpp -/
def escName (k : Bytes) : Bytes :=
  k.flatMap fun c =>
    if c = 92 then [92, 92] else if c = 39 then [92, 39] else if c = 8 then [92, 98] else if c = 12 then [92, 102]
    else if c = 10 then [92, 110] else if c = 13 then [92, 114] else if c = 9 then [92, 116] else [c]

def decBytes (n : Nat) : Bytes := (toString n).toList.map (·.toNat)

/-- `to_basic_string(path_node)` -/
def renderPath (p : Path) : Bytes :=
  36 :: p.flatMap fun s => match s with
    | .name k => [91, 39] ++ escName k ++ [39, 93]
    | .idx i => [91] ++ decBytes i ++ [93]

def splitBar (toks : List String) : List (List String) :=
  let rec go (cur : List String) (acc : List (List String)) : List String → List (List String)
    | [] => (cur.reverse :: acc).reverse
    | "|" :: rest => go [] (cur.reverse :: acc) rest
    | t :: rest => go (t :: cur) acc rest
  go [] [] toks

def optsOf (s : String) : Opts :=
  { nodups := s.toList.contains 'n', sort := s.toList.contains 's', desc := s.toList.contains 'd' }

def showNodes (l : List Node) : String :=
  "ok " ++ toString l.length ++ String.join (l.map fun nd => " p" ++ Wire.hexOfBytes (renderPath nd.1) ++ "=" ++ Wire.render nd.2 ++ " ;")

/-- jp q <j|o> <opts> <exprhex> | <doc> | <ast>     jp r <j|o> <exprhex> | <doc> | <new> | <ast> -/
def jpLine (toks : List String) : String :=
  match splitBar toks with
  | ("q" :: _kind :: opts :: _) :: docT :: astT :: [] =>
    match read1 docT, readSegs astT with
    | some doc, some segs => showNodes (applyOpts (optsOf opts) (query doc segs))
    | _, _ => "bad-op"
  | ("r" :: _) :: docT :: nvT :: astT :: [] =>
    match read1 docT, read1 nvT, readSegs astT with
    | some doc, some nv, some segs => "ok " ++ Wire.render (replaceAll doc segs nv)
    | _, _, _ => "bad-op"
  | _ => "bad-op"

end Drv
end JV
