import JV.Drv.Common
import JV.Model.Number
import JV.Model.BigInt
namespace JV
namespace Drv
open Model

def xArg (s : String) : Option Bytes :=
  match s.toList with
  | 'x' :: cs => Wire.bytesOfHexChars cs
  | _ => none

def showNumErr : NumErr → String
  | .invalid => "err invalid"
  | .range => "err range"

def natToLimbs : Nat → Nat → List Nat
  | 0, _ => []
  | fuel + 1, n => if n = 0 then [] else (n % BigInt.B) :: natToLimbs fuel (n / BigInt.B)

def limbsVal : List Nat → Nat
  | [] => 0
  | x :: xs => x + BigInt.B * limbsVal xs

def bigOfString (s : String) : Option BigInt.Big :=
  match s.toInt? with
  | none => none
  | some i => some { neg := decide (i < 0), mag := natToLimbs 100000 i.natAbs }

def bigToString (b : BigInt.Big) : String :=
  let v := limbsVal b.mag
  if b.neg && v ≠ 0 then "-" ++ toString v else toString v

def numberLine : List String → String
  | ["decu", x] =>
    match xArg x with
    | none => "bad-op"
    | some s => match decToU64 s with
      | .ok n => "ok " ++ toString n
      | .error e => showNumErr e
  | ["deci", x] =>
    match xArg x with
    | none => "bad-op"
    | some s => match decToI64 s with
      | .ok n => "ok " ++ toString n
      | .error e => showNumErr e
  | ["fromi", d] =>
    match d.toInt? with
    | none => "bad-op"
    | some i => "ok x" ++ Wire.hexOfBytes (fromInteger i)
  | ["fromu", d] =>
    match d.toNat? with
    | none => "bad-op"
    | some n => "ok x" ++ Wire.hexOfBytes (fromUnsigned n)
  | ["jint", x, l] =>
    match xArg x with
    | none => "bad-op"
    | some s =>
      match classifyInteger (l = "1") s with
      | .i64 v => "i64 " ++ toString v
      | .u64 v => "u64 " ++ toString v
      | .bigint t => "big x" ++ Wire.hexOfBytes t
      | .viaDouble _ => "dbl"
  | _ => ""

def bigLine : List String → String
  | [op, a, b] =>
    match bigOfString a, bigOfString b with
    | some x, some y =>
      if op = "add" || op = "addeq" then "ok " ++ bigToString (BigInt.add 4 x y)
      else if op = "sub" || op = "subeq" then "ok " ++ bigToString (BigInt.sub 4 x y)
      else if op = "cmp" then
        let c := BigInt.compare x y
        "ok " ++ toString (if c < 0 then (-1 : Int) else if c > 0 then 1 else 0) ++ " " ++ (if c = 0 then "eq" else "ne") ++ " " ++ (if c < 0 then "lt" else "ge")
      else ""
    | _, _ => ""
  | _ => ""

end Drv
end JV
