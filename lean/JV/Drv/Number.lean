import JV.Drv.Common
import JV.Model.Number
import JV.Model.BigInt
namespace JV
namespace Drv
open Model

def xArg (s : String) : Option Bytes :=
  match s.toList with
  | 'x' :: cs => Wire.bytesOfHexChars cs
  | _ => none

def showNumErr : NumErr → String
  | .invalid => "err invalid"
  | .range => "err range"

def natToLimbs : Nat → Nat → List Nat
  | 0, _ => []
  | fuel + 1, n => if n = 0 then [] else (n % BigInt.B) :: natToLimbs fuel (n / BigInt.B)

def limbsVal : List Nat → Nat
  | [] => 0
  | x :: xs => x + BigInt.B * limbsVal xs

def bigOfString (s : String) : Option BigInt.Big :=
  match s.toInt? with
  | none => none
  | some i => some { neg := decide (i < 0), mag := natToLimbs 100000 i.natAbs }

def bigToString (b : BigInt.Big) : String :=
  let v := limbsVal b.mag
  if b.neg && v ≠ 0 then "-" ++ toString v else toString v

def numberLine : List String → String
  | ["decu", x] =>
    match xArg x with
    | none => "bad-op"
    | some s => match decToU64 s with
      | .ok n => "ok " ++ toString n
      | .error e => showNumErr e
  | ["deci", x] =>
    match xArg x with
    | none => "bad-op"
    | some s => match decToI64 s with
      | .ok n => "ok " ++ toString n
      | .error e => showNumErr e
  | ["fromi", d] =>
    match d.toInt? with
    | none => "bad-op"
    | some i => "ok x" ++ Wire.hexOfBytes (fromInteger i)
  | ["fromu", d] =>
    match d.toNat? with
    | none => "bad-op"
    | some n => "ok x" ++ Wire.hexOfBytes (fromUnsigned n)
  | ["jint", x, l] =>
    match xArg x with
    | none => "bad-op"
    | some s =>
      match classifyInteger (l = "1") s with
      | .i64 v => "i64 " ++ toString v
      | .u64 v => "u64 " ++ toString v
      | .bigint t => "big x" ++ Wire.hexOfBytes t
      | .viaDouble _ => "dbl"
  | _ => ""

def bigLine : List String → String
  | [op, a, b] =>
    match bigOfString a, bigOfString b with
    | some x, some y =>
      if op = "add" || op = "addeq" then "ok " ++ bigToString (BigInt.add 4 x y)
      else if op = "sub" || op = "subeq" then "ok " ++ bigToString (BigInt.sub 4 x y)
      else if op = "cmp" then
        let c := BigInt.compare x y
        "ok " ++ toString (if c < 0 then (-1 : Int) else if c > 0 then 1 else 0) ++ " " ++ (if c = 0 then "eq" else "ne") ++ " " ++ (if c < 0 then "lt" else "ge")
      else ""
    | _, _ => ""
  | _ => ""

/-! ### limb-exact bigint ops: operands and results are `p`/`n` + little-endian hex words, e.g. `n1,0,ff` -/

def hexNat? (cs : List Char) : Option Nat :=
  if cs = [] then none
  else cs.foldl (fun acc c => match acc, Wire.hexVal c with
    | some a, some d => some (a * 16 + d)
    | _, _ => none) (some 0)

def hexOfNat (n : Nat) : String :=
  String.ofList ((Nat.toDigits 16 n))

def limbsOfString (s : String) : Option BigInt.Big :=
  match s.toList with
  | sg :: rest =>
    if sg ≠ 'p' ∧ sg ≠ 'n' then none
    else if rest = [] then some { neg := sg = 'n', mag := [] }
    else
      let parts := (String.ofList rest).splitOn ","
      let ws := parts.map fun t => hexNat? t.toList
      if ws.all Option.isSome then some { neg := sg = 'n', mag := ws.filterMap id } else none
  | [] => none

def limbsToString (b : BigInt.Big) : String :=
  (if b.neg then "n" else "p") ++ ",".intercalate (b.mag.map hexOfNat)

def magToString (m : List Nat) : String := limbsToString { neg := false, mag := m }

/-- division by 10^19 on word lists (the parameter of `BigInt.toDecimal`): the model's `divide` where it has
    one, exact arithmetic on the value for the general (Knuth) exit -/
def div19 (v : List Nat) : List Nat × Nat :=
  match BigInt.divWord v 10000000000000000000 with
  | some (q, r) => (q, r.headD 0)                       -- the modelled `divide` exits (values of one word)
  | none =>
    let n := limbsVal v
    (natToLimbs 100000 (n / 10000000000000000000), n % 10000000000000000000)

def bigLimbLine : List String → String
  | ["mulw", a, w] =>
    match limbsOfString a, hexNat? w.toList with
    | some x, some y => "ok " ++ limbsToString (BigInt.mulWordBig x y)
    | _, _ => "bad-op"
  | ["mul", a, b] =>
    match limbsOfString a, limbsOfString b with
    | some x, some y => "ok " ++ limbsToString (BigInt.mul x y)
    | _, _ => "bad-op"
  | ["add", a, b] =>
    match limbsOfString a, limbsOfString b with
    | some x, some y => "ok " ++ limbsToString (BigInt.add 4 x y)
    | _, _ => "bad-op"
  | ["sub", a, b] =>
    match limbsOfString a, limbsOfString b with
    | some x, some y => "ok " ++ limbsToString (BigInt.sub 4 x y)
    | _, _ => "bad-op"
  | ["shl", a, k] =>
    match limbsOfString a, k.toNat? with
    | some x, some n => "ok " ++ limbsToString (BigInt.shl x n)
    | _, _ => "bad-op"
  | ["shr", a, k] =>
    match limbsOfString a, k.toNat? with
    | some x, some n => "ok " ++ limbsToString (BigInt.shr x n)
    | _, _ => "bad-op"
  | ["parse", t] =>
    match xArg t with
    | none => "bad-op"
    | some s => match BigInt.ofDecimal s with
      | none => "err"
      | some v => "ok " ++ limbsToString v
  | ["frombytes", sg, t] =>
    match sg.toInt?, xArg t with
    | some i, some s => "ok " ++ limbsToString (BigInt.fromBytesBE i s)
    | _, _ => "bad-op"
  | ["tobytes", a] =>
    match limbsOfString a with
    | some x => let r := BigInt.toBytesBE x; "ok " ++ toString r.1 ++ " x" ++ Wire.hexOfBytes r.2
    | none => "bad-op"
  | ["divw", a, w] =>
    match limbsOfString a, hexNat? w.toList with
    | some x, some d =>
      if d = 0 then "divzero"
      else match BigInt.divWord x.mag d with
        | some (q, r) => "ok " ++ limbsToString { neg := x.neg, mag := q } ++ " " ++ limbsToString { neg := x.neg, mag := r }
        | none => ""
    | _, _ => "bad-op"
  | ["tostr", a] =>
    match limbsOfString a with
    | some x => "ok x" ++ Wire.hexOfBytes (BigInt.toDecimal div19 x)
    | none => "bad-op"
  | _ => "bad-op"

end Drv
end JV
