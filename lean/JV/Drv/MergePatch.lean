import JV.Drv.Common
import JV.Model.MergePatch
import JV.Spec.Rfc7386
namespace JV
namespace Drv


/-- `mp apply <j|o> <target> <patch>` / `mp diff <j|o> <source> <target>` / `mp difflaw <j|o> <source> <target>` -/
def mergePatchLine : List String → String
  | op :: kind :: rest =>
    let ordered := kind = "o"
    match read2 rest with
    | none => "bad-op"
    | some (a, b) =>
      if op = "apply" then "ok " ++ Wire.render (Model.applyMP ordered a b)
      else if op = "diff" then "ok " ++ Wire.render (Model.fromDiff ordered a b)
      else if op = "spec" then "ok " ++ Wire.render (Spec.Rfc7386.mergePatch (sortKeys a) (sortKeys b))
      else if op = "difflaw" then
        "ok " ++ Wire.render (Model.applyMP ordered a (Model.fromDiff ordered a b))
      else "bad-op"
  | _ => "bad-op"

end Drv
end JV
