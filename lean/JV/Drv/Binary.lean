import JV.Drv.Common
import JV.Spec.Cbor
import JV.Spec.BinFormats
namespace JV
namespace Drv
open Spec.Cbor

def hex16 (n : Nat) (digits : Nat) : String :=
  let ds := (Nat.toDigits 16 n)
  String.ofList (List.replicate (digits - ds.length) '0' ++ ds)

def withTag (s : String) (tag : String) : String := if tag = "" then s else s ++ "@" ++ tag

mutual
  def bvTokens : BV → List String
    | .null => ["n"]
    | .undef => ["n@undefined"]
    | .bool true => ["t"]
    | .bool false => ["f"]
    | .int i tag => [withTag ("i" ++ toString i) tag]
    | .half b => ["e" ++ hex16 b 4]
    | .dbl b tag => [withTag ("d" ++ hex16 b 16) tag]
    | .str s tag => [withTag ("s" ++ Wire.hexOfBytes s) tag]
    | .bytes s tag => [withTag ("b" ++ Wire.hexOfBytes s) tag]
    | .arr xs => "[" :: (bvList xs ++ ["]"])
    | .map ms => "{" :: (bvMembers ms ++ ["}"])
  def bvList : List BV → List String
    | [] => []
    | x :: xs => bvTokens x ++ bvList xs
  def bvMembers : List (Bytes × BV) → List String
    | [] => []
    | (k, x) :: ms => ("k" ++ Wire.hexOfBytes k) :: (bvTokens x ++ bvMembers ms)
end

/-- bin sdec <fmt> x<bytes> -/
def binaryLine : List String → String
  | ["sdec", fmt, x] =>
    match (match x.toList with | 'x' :: cs => Wire.bytesOfHexChars cs | _ => none) with
    | none => "bad-op"
    | some s =>
      match (if fmt = "cbor" then decode s else if fmt = "msgpack" then Spec.Msgpack.decode s
             else if fmt = "bson" then Spec.Bson.decode s else Spec.Ubjson.decode s) with
      | .ok v _ => "ok " ++ " ".intercalate (bvTokens v)
      | .illformed => "ill"
      | .unjudged => "unjudged"
  | _ => ""

end Drv
end JV
