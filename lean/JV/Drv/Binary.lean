import JV.Model.BigFloat
import JV.Drv.Common
import JV.Spec.Cbor
import JV.Spec.BinFormats
import JV.Model.Cbor
import JV.Model.Msgpack
import JV.Model.Ubjson
import JV.Model.Bson
import JV.Model.EncoderEvents
import JV.Model.CborParser
import JV.Model.MsgpackParser
import JV.Model.UbjsonParser
namespace JV
namespace Drv
open Spec.Cbor

def hex16 (n : Nat) (digits : Nat) : String :=
  let ds := (Nat.toDigits 16 n)
  String.ofList (List.replicate (digits - ds.length) '0' ++ ds)

def withTag (s : String) (tag : String) : String := if tag = "" then s else s ++ "@" ++ tag

mutual
  def bvTokens : BV → List String
    | .null => ["n"]
    | .undef => ["n@undefined"]
    | .bool true => ["t"]
    | .bool false => ["f"]
    | .int i tag => [withTag ("i" ++ toString i) tag]
    | .half b => ["e" ++ hex16 b 4]
    | .dbl b tag => [withTag ("d" ++ hex16 b 16) tag]
    | .str s tag => [withTag ("s" ++ Wire.hexOfBytes s) tag]
    | .bytes s tag => [withTag ("b" ++ Wire.hexOfBytes s) tag]
    | .arr xs => "[" :: (bvList xs ++ ["]"])
    | .map ms => "{" :: (bvMembers ms ++ ["}"])
  def bvList : List BV → List String
    | [] => []
    | x :: xs => bvTokens x ++ bvList xs
  def bvMembers : List (Bytes × BV) → List String
    | [] => []
    | (k, x) :: ms => ("k" ++ Wire.hexOfBytes k) :: (bvTokens x ++ bvMembers ms)
end

/-- wire value (core only) → the encoder model's value -/
partial def cvOfTokens : List String → Option (Model.Cbor.CV × List String)
  | [] => none
  | tok :: rest =>
    if tok.contains '@' then none
    else match tok.toList with
    | ['n'] => some (.null, rest)
    | ['t'] => some (.bool true, rest)
    | ['f'] => some (.bool false, rest)
    | 'i' :: cs => (String.ofList cs).toInt?.map fun i => (.int i, rest)
    | 'd' :: cs => (Wire.bytesOfHexChars cs).map fun b => (.dbl (Spec.Cbor.beVal b), rest)
    | 's' :: cs => (Wire.bytesOfHexChars cs).map fun b => (.str b, rest)
    | 'b' :: cs => (Wire.bytesOfHexChars cs).map fun b => (.bytes b, rest)
    | ['['] =>
      let rec elems (acc : List Model.Cbor.CV) (ts : List String) : Option (Model.Cbor.CV × List String) :=
        match ts with
        | "]" :: r => some (.arr acc.reverse, r)
        | _ => match cvOfTokens ts with
          | none => none
          | some (x, r) => elems (x :: acc) r
      elems [] rest
    | ['{'] =>
      let rec mems (acc : List (Bytes × Model.Cbor.CV)) (ts : List String) : Option (Model.Cbor.CV × List String) :=
        match ts with
        | "}" :: r => some (.map acc.reverse, r)
        | k :: r1 =>
          (match k.toList with
          | 'k' :: cs => match Wire.bytesOfHexChars cs, cvOfTokens r1 with
            | some kb, some (x, r2) => mems ((kb, x) :: acc) r2
            | _, _ => none
          | _ => none)
        | [] => none
      mems [] rest
    | _ => none

/-- one visitor event of the `bin events` token syntax (untagged, announced lengths only) -/
def evOfToken (t : String) : Option Model.EncoderEvents.Ev :=
  if t.contains '@' then none
  else match t.toList with
  | ['E', 'A'] => some .endArr
  | ['E', 'O'] => some .endObj
  | 'B' :: 'A' :: cs => (String.ofList cs).toNat?.map .beginArr
  | 'B' :: 'O' :: cs => (String.ofList cs).toNat?.map .beginObj
  | 'K' :: cs => (Wire.bytesOfHexChars cs).map .key
  | 'S' :: cs => (Wire.bytesOfHexChars cs).map .str
  | 'B' :: cs => (Wire.bytesOfHexChars cs).map .bytes
  | 'I' :: cs => (String.ofList cs).toInt?.map .int
  | 'U' :: cs => (String.ofList cs).toNat?.map fun n => .int n
  | 'D' :: cs => if cs.length = 16 then (Wire.bytesOfHexChars cs).map fun b => .dbl (Spec.Cbor.beVal b) else none
  | ['N'] => some .null
  | ['T'] => some (.bool true)
  | ['F'] => some (.bool false)
  | _ => none

/-- bin mev <fmt> <events…>  →  what the event-driven encoder model leaves in the sink | err (refused: a wrong announced length, an
    integer the format cannot carry, BSON's document rules) -/
def eventsLine (fmt : String) (toks : List String) : String :=
  match toks.mapM evOfToken with
  | none => ""
  | some evs =>
    if fmt = "bson" then
      match Model.EncoderEvents.Bson.feed evs with
      | some b => "ok x" ++ Wire.hexOfBytes b
      | none => "err"
    else match Model.EncoderLen.run [] (evs.map Model.EncoderEvents.shape) with
      | .error _ => "err"
      | .ok _ =>
        if fmt = "cbor" then "ok x" ++ Wire.hexOfBytes (Model.EncoderEvents.feed Model.EncoderEvents.Cbor.emit evs)
        else if fmt = "msgpack" then "ok x" ++ Wire.hexOfBytes (Model.EncoderEvents.feed Model.EncoderEvents.Msgpack.emit evs)
        else if fmt = "ubjson" then
          if evs.all (fun e => match e with | .int i => decide (i < 9223372036854775808) | _ => true)
          then "ok x" ++ Wire.hexOfBytes (Model.EncoderEvents.feed Model.EncoderEvents.Ubjson.emit evs) else "err"
        else ""
/-- `d<N>` in an option string (the harness's max_nesting_depth option), default 1024 -/
def depthOpt (opts : String) : Nat :=
  match opts.toList with
  | 'd' :: cs => (String.ofList cs).toNat?.getD Model.CborParser.defaultMaxDepth
  | _ => Model.CborParser.defaultMaxDepth

/-- the harness's UBJSON option string: `d<N>` = max_nesting_depth, `m<N>` = max_items, `-` = nothing (parse_opts in harness/bin.cpp) -/
def ubjOpts (opts : String) : Model.UbjsonParser.Opts :=
  let rec go (fuel : Nat) (cs : List Char) (o : Model.UbjsonParser.Opts) : Model.UbjsonParser.Opts :=
    match fuel, cs with
    | 0, _ => o
    | _, [] => o
    | fuel + 1, k :: rest =>
      let ds := rest.takeWhile Char.isDigit
      let v := (String.ofList ds).toNat?.getD 0
      let rest2 := rest.dropWhile Char.isDigit
      if k = 'd' then go fuel rest2 { o with maxDepth := v }
      else if k = 'm' then go fuel rest2 { o with maxItems := v }
      else go fuel rest o
  go opts.length opts.toList {}

/-- bin sdec <fmt> x<bytes> -/
def binaryLine : List String → String
  | ["mdec", "cbor", opts, x] =>
    -- bin mdec cbor <-|dN> x<bytes>  →  the outcome of the cbor_parser model: value | err jsoncons/cbor:<code> | skip (outside the fragment)
    (match (match x.toList with | 'x' :: cs => Wire.bytesOfHexChars cs | _ => none) with
     | none => "bad-op"
     | some s =>
       match Model.CborParser.decode (depthOpt opts) s with
       | .ok v _ => (match Model.CborParser.toBV Model.CborParser.renderKey v with
         | some bv => "ok " ++ " ".intercalate (bvTokens bv)
         | none => "skip")
       | .fail (.err e) => "err jsoncons/cbor:" ++ toString e.code
       | .fail .skip => "skip"
       | .fail .fuel => "fuel")
  | ["mdec", "msgpack", opts, x] =>
    -- bin mdec msgpack <-|dN> x<bytes>  →  the outcome of the msgpack_parser model: value | err jsoncons/msgpack:<code> | skip
    (match (match x.toList with | 'x' :: cs => Wire.bytesOfHexChars cs | _ => none) with
     | none => "bad-op"
     | some s =>
       match Model.MsgpackParser.decode (depthOpt opts) s with
       | .ok v _ => (match Model.MsgpackParser.toBV Model.MsgpackParser.renderKey true v with
         | some bv => "ok " ++ " ".intercalate (bvTokens bv)
         | none => "skip")
       | .fail (.err e) => "err jsoncons/msgpack:" ++ toString e.code
       | .fail .skip => "skip"
       | .fail .fuel => "fuel")
  | ["mdec", "ubjson", opts, x] =>
    -- bin mdec ubjson <-|dN|mN…> x<bytes>  →  the outcome of the ubjson_parser model: value | err jsoncons/ubjson:<code> | skip (a no-op
    -- marker where a member value or the root value is expected)
    (match (match x.toList with | 'x' :: cs => Wire.bytesOfHexChars cs | _ => none) with
     | none => "bad-op"
     | some s =>
       let o := ubjOpts opts
       match Model.UbjsonParser.decodeWith o (3 * s.length + 3 + min o.maxItems 1048576) s with
       | .ok v _ => (match Model.UbjsonParser.toBV true true v with
         | some bv => "ok " ++ " ".intercalate (bvTokens bv)
         | none => "skip")
       | .fail (.err e) => "err jsoncons/ubjson:" ++ toString e.code
       | .fail .fuel => "fuel")
  | ["sdec", fmt, x] =>
    match (match x.toList with | 'x' :: cs => Wire.bytesOfHexChars cs | _ => none) with
    | none => "bad-op"
    | some s =>
      match (if fmt = "cbor" then decode s else if fmt = "msgpack" then Spec.Msgpack.decode s
             else if fmt = "bson" then Spec.Bson.decode s
             else (match s with
                   | [] => .illformed
                   -- `Spec.Ubjson.decode` with extra fuel: a counted container of zero-byte elements (`[$Z#U\xff`) needs one step per element,
                   -- which the definition's 3·|s|+3 does not cover (more fuel never changes an answer that is not out-of-fuel)
                   | m :: r => Spec.Ubjson.valueOf (3 * s.length + 3 + 1048576) m r)) with
      | .ok v _ => "ok " ++ " ".intercalate (bvTokens v)
      | .illformed => "ill"
      | .unjudged => "unjudged"
  | ["half", h] =>
    -- bin half <4 hex digits>  →  the double the binary16 pattern denotes (three library routes must agree with it)
    (match Wire.bytesOfHexChars h.toList with
     | some [hi, lo] =>
       let b := hi * 256 + lo
       if f16IsNaN b then "ok nan nan nan"
       else
         let d := "d" ++ hex16 (f16ToF64 b) 16
         "ok " ++ d ++ " " ++ d ++ " " ++ d
     | _ => "bad-op")
  | ["mbf", x] =>
    -- bin mbf x<text of a bigfloat-tagged string>  →  the bytes encode_cbor writes for it | the text decode_cbor renders for those bytes
    (match (match x.toList with | 'x' :: cs => Wire.bytesOfHexChars cs | _ => none) with
     | none => "bad-op"
     | some s => match Model.BigFloat.encodeText s, Model.BigFloat.parse s with
       | some b, some (m, e) => "ok x" ++ Wire.hexOfBytes b ++ " | ok s" ++ Wire.hexOfBytes (Model.BigFloat.render m e) ++ "@bigfloat"
       | _, _ => "err")
  | ["mbfr", x] =>
    -- bin mbfr x<cbor bytes of a tag-5 item>  →  the text decode_cbor renders for it
    (match (match x.toList with | 'x' :: cs => Wire.bytesOfHexChars cs | _ => none) with
     | none => "bad-op"
     | some s => match Model.BigFloat.decodeBigfloat s with
       | some ((m, e), []) => "ok s" ++ Wire.hexOfBytes (Model.BigFloat.render m e)
       | _ => "err")
  | "mev" :: fmt :: toks => eventsLine fmt toks
  | "menc" :: "cbor" :: toks =>
    match cvOfTokens toks with
    | some (v, []) => "ok x" ++ Wire.hexOfBytes (Model.Cbor.encode v)
    | _ => ""
  | "menc" :: "msgpack" :: toks =>
    -- bin menc msgpack <wire value (core)>  →  the bytes encode_msgpack writes for it
    match cvOfTokens toks with
    | some (v, []) => "ok x" ++ Wire.hexOfBytes (Model.Msgpack.encode v)
    | _ => ""
  | "menc" :: "ubjson" :: toks =>
    -- bin menc ubjson <wire value (core)>  →  the bytes encode_ubjson writes for it | err (an integer above 2^63-1)
    match cvOfTokens toks with
    | some (v, []) => if Model.Ubjson.representable v then "ok x" ++ Wire.hexOfBytes (Model.Ubjson.encode v) else "err"
    | _ => ""
  | "menc" :: "bson" :: toks =>
    -- bin menc bson <wire value (core)>  →  the bytes encode_bson writes for it | err (a scalar root, an integer above 2^63-1, text that
    -- is not UTF-8, nesting deeper than 1024)
    match cvOfTokens toks with
    | some (v, []) =>
      (match Model.Bson.encode v with
       | some b => if Model.Bson.representable v then "ok x" ++ Wire.hexOfBytes b else "err"
       | none => "err")
    | _ => ""
  | _ => ""

end Drv
end JV
