/-
  JV.Drv.JsonParser — line protocol for the parser state-machine model (glue; not referenced by theorems).
    jt pevents <flags> x<text> <cuts>      cuts: `-` or comma-separated offsets (ascending, 0 < cut < length)
  prints   <ok|err N> |<events> ##<state signature after each chunk that left the parser running>
-/
import JV.Drv.Common
import JV.Drv.JsonText
import JV.Model.JsonParser
import JV.Model.Number
namespace JV
namespace Drv
open Model Model.JsonParser

def psCode : PS → Nat
  | .root => 0 | .start => 1 | .accept => 2 | .slash => 3 | .slashSlash => 4 | .slashStar => 5 | .slashStarStar => 6
  | .expectCommaOrEnd => 7 | .object => 8 | .expectMemberNameOrEnd => 9 | .expectMemberName => 10 | .expectColon => 11
  | .expectValueOrEnd => 12 | .expectValue => 13 | .array => 14 | .string => 15 | .memberName => 16 | .number => 17
  | .n => 18 | .nu => 19 | .nul => 20 | .t => 21 | .tr => 22 | .tru => 23 | .f => 24 | .fa => 25 | .fal => 26 | .fals => 27
  | .cr => 28 | .done => 29

def ssCode : SS → Nat
  | .text => 0 | .escape => 1 | .u1 => 2 | .u2 => 3 | .u3 => 4 | .u4 => 5 | .pair1 => 6 | .pair2 => 7 | .u5 => 8 | .u6 => 9
  | .u7 => 10 | .u8 => 11

def nsCode : NS → Nat
  | .minus => 0 | .zero => 1 | .integer => 2 | .fraction1 => 3 | .fraction2 => 4 | .exp1 => 5 | .exp2 => 6 | .exp3 => 7

/-- how the events look once the literal of a number has been classified (`end_integer_value` / `end_fraction_value`);
    `lossless` = lossless_number, `bignum` = lossless_bignum -/
def evString (lossless bignum : Bool) : Ev → String
  | .beginObject => " BO" | .endObject => " EO" | .beginArray => " BA" | .endArray => " EA"
  | .key s => " K" ++ Wire.hexOfBytes s
  | .str s noesc => " S" ++ Wire.hexOfBytes s ++ (if noesc then "@noesc" else "")
  | .null => " N"
  | .bool b => if b then " T" else " F"
  | .int lit =>
    match classifyInteger bignum lit with
    | .i64 v => " I" ++ toString v
    | .u64 v => " I" ++ toString v
    | .bigint s => " S" ++ Wire.hexOfBytes s ++ "@bigint"
    | _ => " D?"
  | .frac lit => if lossless then " S" ++ Wire.hexOfBytes lit ++ "@bigdec" else " D?"

def flagBool (fl : String) (k : Char) (dflt : Bool) : Bool :=
  let rec go : List Char → Bool
    | [] => dflt
    | c :: d :: rest => if c = k then d != '0' else go (d :: rest)
    | [_] => dflt
  go fl.toList

def sigOf (s : St) : String :=
  let base := toString (psCode s.st) ++ "/" ++ toString s.level ++ "/" ++ ".".intercalate (s.stack.reverse.map fun p => toString (psCode p))
  match s.st with
  | .number => base ++ "/n" ++ toString (nsCode s.ns) ++ "/" ++ Wire.hexOfBytes s.buf
  | .string =>
    let cps := match s.ss with
      | .u2 | .u3 | .u4 | .pair1 | .pair2 | .u5 => "/" ++ toString s.cp
      | .u6 | .u7 | .u8 => "/" ++ toString s.cp ++ "," ++ toString s.cp2
      | _ => ""
    base ++ "/s" ++ toString (ssCode s.ss) ++ "/" ++ Wire.hexOfBytes s.buf ++ (if s.noesc then "" else "e") ++ cps
  | _ => base

def splitAt (bs : Bytes) (cuts : List Nat) : List Bytes :=
  let rec go (bs : Bytes) (pos : Nat) : List Nat → List Bytes
    | [] => [bs]
    | c :: cs => bs.take (c - pos) :: go (bs.drop (c - pos)) c cs
  (go bs 0 cuts).filter (· ≠ [])

def parseCuts (s : String) : List Nat :=
  if s = "-" then [] else (s.splitOn ",").filterMap String.toNat?

def jsonParserLine : List String → String
  | ["pevents", fl, x, cuts] =>
    match xArg' x with
    | none => "bad-op"
    | some text =>
      let f := parseFlags fl
      let cfg : Cfg := { maxDepth := f.maxDepth, comments := f.comments, trailingComma := f.trailingComma }
      let lossless := flagBool fl 'n' false
      let bignum := flagBool fl 'b' true
      let chunks := splitAt text (parseCuts cuts)
      let (s, sigs) := chunks.foldl (fun (acc : St × List String) ch =>
          let s' := feed cfg acc.1 ch
          (s', if s'.err.isNone && s'.st != .done then sigOf s' :: acc.2 else acc.2)) (init, [])
      let r := finish s
      let head := match r.err with
        | some e => "err " ++ toString e
        | none => if r.st = .done then "ok" else "err stuck"
      head ++ " |" ++ String.join (r.evs.reverse.map (evString lossless bignum)) ++ " ##" ++ ";".intercalate sigs.reverse
  | _ => "bad-op"
where
  xArg' (s : String) : Option Bytes :=
    match s.toList with
    | 'x' :: cs => Wire.bytesOfHexChars cs
    | _ => none

end Drv
end JV
