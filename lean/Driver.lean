/-
  jvdriver — one operation per input line, one canonical line out. Imports JV.Model/* only
  (never Mathlib), so it links as a native executable.
-/
import JV.Drv.MergePatch
import JV.Drv.Pointer
import JV.Drv.Patch
import JV.Drv.Number
import JV.Drv.JsonText
import JV.Drv.JsonParser
import JV.Drv.Source
import JV.Drv.Binary
import JV.Drv.Dom
import JV.Drv.JsonPath
import JV.Drv.JMESPath
import JV.Drv.Csv
import JV.Drv.Typed
import JV.Drv.JsonSchema
open JV Drv

def dispatch (line : String) : String :=
  match tokens line with
  | "mp" :: rest => mergePatchLine rest
  | "ptr" :: rest => pointerLine rest
  | "patch" :: rest => patchLine rest
  | "num" :: rest => numberLine rest
  | "big" :: rest => bigLine rest
  | "jt" :: "pevents" :: rest => jsonParserLine ("pevents" :: rest)
  | "bigl" :: rest => bigLimbLine rest
  | "jt" :: rest => jsonTextLine rest
  | "src" :: rest => sourceLine rest
  | "bin" :: rest => binaryLine rest
  | "dom" :: rest => domLine rest
  | "jp" :: rest => jpLine rest
  | "jm" :: rest => jmLine rest
  | "csvm" :: rest => csvmLine rest
  | "ty" :: rest => tyLine rest
  | "js" :: rest => jsLine rest
  | [] => ""
  | _ => "bad-op"

partial def loop (h : IO.FS.Stream) (out : IO.FS.Stream) : IO Unit := do
  let line ← h.getLine
  if line.isEmpty then return ()
  out.putStrLn (dispatch line)
  loop h out

def main : IO Unit := do
  let out ← IO.getStdout
  loop (← IO.getStdin) out
  out.flush
