#!/usr/bin/env python3
"""tools/reseed.py [-j N] [name ...]   — re-run the registered check of every archived seeded change against the checks as they are now.
Each seed gets a private worktree of /repo's HEAD under /tmp/seedwt (removed afterwards); the check reads it through VERIF_REPO and
writes its scratch output through VERIF_OUT, so /repo and /verif/evidence are not touched. meta.json["checks"] is rewritten with the
result (exit code, first lines), meta.json["rechecked_at"] names the /verif commit."""
import concurrent.futures as cf, glob, json, os, subprocess, sys

ROOT = "/verif"


def sh(cmd):
    p = subprocess.run(cmd, shell=True, stdout=subprocess.PIPE, stderr=subprocess.STDOUT)
    return p.returncode, p.stdout.decode("utf-8", "replace")


def one(name):
    d = os.path.join(ROOT, "seeded", name)
    meta = json.load(open(os.path.join(d, "meta.json")))
    checks = list(meta.get("checks", {}).keys()) or [meta["property"]]
    wt = "/tmp/seedwt/" + name
    sh("git -C /repo worktree remove --force %s; rm -rf %s %s.out" % (wt, wt, wt))
    rc, o = sh("mkdir -p /tmp/seedwt && git -C /repo worktree add -q --detach %s HEAD" % wt)
    if rc != 0:
        return name, "worktree: " + o
    try:
        rc, o = sh("git -C %s apply %s/patch.diff" % (wt, d))
        if rc != 0:
            return name, "patch does not apply: " + o[-200:]
        res = {}
        for c in checks:
            rcc, oc = sh("cd /verif && VERIF_REPO=%s VERIF_OUT=%s.out python3 check.py %s --tier quick" % (wt, wt, c))
            lines = [l.replace(wt + ".out", "<out>") for l in oc.split("\n") if l.startswith(("VIOLATION", "OK ", "KNOWN"))]
            res[c] = {"exit": rcc, "lines": [l for l in lines if not l.startswith("KNOWN")][:3], "known_lines": sum(l.startswith("KNOWN") for l in lines)}
            if rcc not in (0, 1):
                res[c]["tail"] = oc[-400:]
        meta["checks"] = res
        meta["rechecked_at"] = sh("git -C /verif rev-parse --short HEAD")[1].strip()
        json.dump(meta, open(os.path.join(d, "meta.json"), "w"), indent=1)
        return name, {c: r["exit"] for c, r in res.items()}
    finally:
        sh("git -C /repo worktree remove --force %s; rm -rf %s %s.out" % (wt, wt, wt))


def main():
    args = sys.argv[1:]
    j = 4
    if args and args[0] == "-j":
        j = int(args[1]); args = args[2:]
    names = args or sorted(os.path.basename(p) for p in glob.glob(os.path.join(ROOT, "seeded", "C*")))
    with cf.ThreadPoolExecutor(j) as ex:
        for name, r in ex.map(one, names):
            print(name, r, flush=True)


if __name__ == "__main__":
    main()
