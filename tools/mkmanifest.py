#!/usr/bin/env python3
"""Regenerates /verif/MANIFEST.json from the table below (kept here so the file is always schema-valid)."""
import json
import os
import subprocess

ROOT = os.path.dirname(os.path.dirname(os.path.abspath(__file__)))

CLAIMED = {
    "C16": dict(
        text="Machine-checked proof (Lean 4) that a step-for-step model of mergepatch.hpp (apply_merge_patch_, from_diff, for sorted and "
             "insertion-ordered objects) computes the RFC 7386 MergePatch function and satisfies the diff law, for all targets and patches; "
             "the model is tied to /repo's current source by a differential correspondence run (real code under ASan/UBSan vs compiled Lean "
             "model on the same generated operations) and the property is additionally judged directly on the real outputs.",
        note="Trusted: Lean kernel + propext/Quot.sound/Classical.choice; the hand-written model of mergepatch.hpp and of the object "
             "primitives find/erase/try_emplace (validated only by the correspondence run, whose reach is bounded by the generator); values "
             "restricted to null/bool/integer/string/array/object (no doubles, no tags) in this check.",
        technique="Lean 4 theorem (refinement to RFC 7386 spec + diff law) + differential correspondence model-vs-code",
        design="§5 C16"),
}

CLAIMED["C14"] = dict(
    text="Machine-checked proofs (Lean 4) about a step-for-step model of jsonpointer.hpp: parse and to_string are mutually inverse for all token "
         "lists / accepted strings; array-index tokens are accepted exactly per RFC 6901 (within size_t); get is sound and complete w.r.t. RFC 6901 "
         "evaluation; every failing add/add_if_absent/replace/remove (incl. create_if_missing) leaves the document untouched; a successful write is "
         "read back by get; '-' appends, add inserts, replace overwrites. Tied to the code by differential correspondence (json and ojson) and "
         "judged against the Lean RFC 6901/6902 Spec and an independent Python RFC 6901 tokenizer on the real outputs.",
    note="Trusted: Lean kernel + standard axioms; hand-written model validated by the correspondence run only; flatten is modelled and tied, "
         "unflatten(flatten(d)) = d is only observed on the real code (unflatten is not modelled); refinement of the modifying operations to the "
         "Spec is checked per case by the driver, not proved.",
    technique="Lean 4 theorems (inverse pair, refinement of get, failure atomicity) + differential correspondence + Lean Spec oracle",
    design="§5 C14")
CLAIMED["C15"] = dict(
    text="Lean 4 model of jsonpatch.hpp apply_patch (definite_path, insert-else-replace fallback, undo log, unwinder that stops at the first failing "
         "undo) and from_diff; proved: every failing operation that logged nothing leaves the document untouched (hence atomicity at the first "
         "failure), malformed/unknown operations are rejected, test is pure, root targets log a restoring undo. RFC 6902 conformance, atomicity "
         "at every position and the diff law are decided per case by the correspondence run against the Lean RFC 6902 Spec and by the oracle on "
         "the real outputs (partial proof: the inversion lemmas for the undo log are not yet proved).",
    note="Partial: general atomicity (failure after k > 0 successful operations), refinement to the Spec and the diff law are validated by "
         "differential testing against the executable Lean Spec, not proved. Trusted: model, harness, generators. Known finding D18 (ojson test "
         "is member-order sensitive) is listed in known_findings.json.",
    technique="Lean 4 theorems (failure leaves document, rejection) + correspondence vs executable Lean RFC 6902 Spec",
    design="§5 C15")

CLAIMED["C04"] = dict(
    text="Lean 4 proofs about step-for-step models of dec_to_integer, from_integer, the parser's integer classification and basic_bigint's "
         "+= / -= limb loops (64-bit wrap-around explicit): integer literals parse exactly or report out-of-range at both 64-bit boundaries, stored "
         "integers print as their exact digits and parse back (incl. INT64_MIN), out-of-range literals are kept digit for digit, bigint addition and "
         "subtraction are exact for all carries/borrows. Doubles (shortest <= 17 digit printing that parses back; correctly rounded parsing), bigint "
         "* / % shifts and radix/byte conversions are decided per case against exact Python arithmetic on boundary-directed inputs (every power of "
         "two, powers of ten +-1ulp, midpoints, limb edge values).",
    note="Partial: Grisu3/snprintf digit generation, strtod/from_chars, bigint multiplication/division/shifts are validated per case (Python int / "
         "correctly rounded float() as oracle), not proved. Trusted: models, harness, Python arithmetic.",
    technique="Lean 4 theorems (exact integer parse/print, bigint add/sub loops) + correspondence + exact-arithmetic oracle",
    design="§5 C04")

ALL = ["C%02d" % i for i in range(1, 21)]
NOT_YET = "not claimed yet: the Lean model, theorems and correspondence harness for this property are still being built (see DESIGN.md §8 staging)"


def main():
    hooks_commits = []
    try:
        out = subprocess.run(["git", "-C", "/repo", "log", "--format=%H %s"], stdout=subprocess.PIPE).stdout.decode()
        hooks_commits = [l.split()[0] for l in out.split("\n") if l[41:].startswith("verif-hook:")]
    except Exception:
        pass
    m = {
        "version": 1,
        "setup_cmd": "cd /verif/lean && lake build JV jvdriver",
        "hooks": {
            "guard": "JSONCONS_VERIF",
            "enable": "harnesses are compiled with -DJSONCONS_VERIF -I/repo/include (header-only library; see vlib.py CXXFLAGS)",
            "baseline_off_cmd": "cmake --build /repo/_build -j16 && ctest --test-dir /repo/_build -j8 --timeout 900",
            "source_commits": hooks_commits,
            "add_only": True,
        },
        "engines": [
            {"name": "lean4-proof+correspondence", "path": "/verif/check.py", "serves_properties": sorted(CLAIMED),
             "kind_free_text": "Lean 4 theorems about a hand-written executable model (lean/JV), tied to the code by a differential correspondence "
                               "harness (harness/*.cpp vs lean_exe jvdriver) and, for table-like code, by tools/extract.py regenerating lean/JV/Extracted"},
        ],
        "checks": [],
        "not_applicable": [],
        "notes": "See DESIGN.md. Every check: lake build of the property's theorems, axiom audit, harness rebuilt from /repo's working tree, "
                 "correspondence + property oracle, search on break, known findings from known_findings.json.",
    }
    for pid in ALL:
        if pid in CLAIMED:
            c = CLAIMED[pid]
            m["checks"].append({
                "property_id": pid,
                "quick_cmd": "python3 check.py %s --tier quick" % pid,
                "thorough_cmd": "python3 check.py %s --tier thorough" % pid,
                "evidence_file": "/verif/evidence/%s.json" % pid,
                "replay_cmd_template": "python3 check.py %s --replay {path}" % pid,
                "engine": "lean4-proof+correspondence",
                "level_claimed": {"category": "proof", "text": c["text"], "design_ref": c["design"]},
                "level_note": c["note"],
                "technique": c["technique"],
            })
        else:
            m["not_applicable"].append({"property_id": pid, "reason": NOT_YET})
    with open(os.path.join(ROOT, "MANIFEST.json"), "w") as f:
        json.dump(m, f, indent=1)
        f.write("\n")


if __name__ == "__main__":
    main()
