#!/usr/bin/env python3
"""Regenerates /verif/MANIFEST.json from the table below (kept here so the file is always schema-valid)."""
import json
import os
import subprocess

ROOT = os.path.dirname(os.path.dirname(os.path.abspath(__file__)))

CLAIMED = {
    "C16": dict(
        text="Machine-checked proof (Lean 4) that a step-for-step model of mergepatch.hpp (apply_merge_patch_, from_diff, for sorted and "
             "insertion-ordered objects) computes the RFC 7386 MergePatch function and satisfies the diff law, for all targets and patches; "
             "the model is tied to /repo's current source by a differential correspondence run (real code under ASan/UBSan vs compiled Lean "
             "model on the same generated operations) and the property is additionally judged directly on the real outputs.",
        note="Trusted: Lean kernel + propext/Quot.sound/Classical.choice; the hand-written model of mergepatch.hpp and of the object "
             "primitives find/erase/try_emplace (validated only by the correspondence run, whose reach is bounded by the generator); values "
             "restricted to null/bool/integer/string/array/object (no doubles, no tags) in this check.",
        technique="Lean 4 theorem (refinement to RFC 7386 spec + diff law) + differential correspondence model-vs-code",
        design="§5 C16"),
}

CLAIMED["C14"] = dict(
    text="Machine-checked proofs (Lean 4) about a step-for-step model of jsonpointer.hpp: parse and to_string are mutually inverse for all token "
         "lists / accepted strings; array-index tokens are accepted exactly per RFC 6901 (within size_t); get is sound and complete w.r.t. RFC 6901 "
         "evaluation; every failing add/add_if_absent/replace/remove (incl. create_if_missing) leaves the document untouched; a successful write is "
         "read back by get; '-' appends, add inserts, replace overwrites. Tied to the code by differential correspondence (json and ojson) and "
         "judged against the Lean RFC 6901/6902 Spec and an independent Python RFC 6901 tokenizer on the real outputs.",
    note="Trusted: Lean kernel + standard axioms; hand-written model validated by the correspondence run only; flatten and unflatten (both options) are modelled and tied; "
         "unflatten(flatten(d)) = d is proved for every Roundtrippable document of the sorted flavour (decidable predicate: under the default option no "
         "non-empty object whose names are exactly the indices 0..n-1 - such an object provably comes back as an array -, under assume_object no non-empty "
         "array), every pointer flatten emits resolves to its value, every leaf is covered; the ojson flavour and the exact image of arrays under "
         "assume_object are compared per case. D87 (names with leading zeros taken for indices, a member lost) found and fixed; "
         "refinement of the modifying operations to the "
         "Spec is checked per case by the driver, not proved.",
    technique="Lean 4 theorems (inverse pair, refinement of get, failure atomicity, unflatten o flatten = id) + differential correspondence + Lean Spec oracle",
    design="§5 C14")
CLAIMED["C15"] = dict(
    text="Lean 4 model of jsonpatch.hpp apply_patch (definite_path, insert-else-replace fallback, undo log, unwinder that stops at the first failing "
         "undo) and from_diff, tied to the real code by correspondence. Proved for ALL documents and patches: ATOMICITY - if any operation fails, "
         "however many succeeded before it (all six operations, '-', array shifting, root targets, move failing in its second half), the document is "
         "restored: exactly for jsoncons::json under its representation invariant (apply_atomic_sorted), up to member order for ojson with unique "
         "keys (apply_atomic_ordered; exact equality is false there - kernel-checked witness - because the undo of remove re-appends the member), "
         "exactly for both whenever the patch has no remove/move (apply_atomic_no_removal); every operation, failed or not, is inverted by the undo "
         "entries it logs (undo_inverts_op); malformed/unknown operations are rejected, test is pure. RFC 6902 CONFORMANCE for jsoncons::json: a successful "
         "model run computes exactly what the RFC 6902 reference computes and conversely (apply_refines_spec, apply_iff_spec; side condition: arrays shorter "
         "than 2^64); the DIFF LAW applyPatch a (fromDiff a b) = b for all documents under the representation invariant (diff_law). For ojson both are "
         "decided per case by the correspondence run against the Lean RFC 6902 Spec and by the oracle on the real outputs.",
    note="Partial: for the insertion-ordered flavour (ojson) refinement to the Spec and the diff law hold only up to member order and are validated by "
         "differential testing, not proved. "
         "Atomicity under allocation failure is outside the model (D66, known). Known finding D18 (ojson test is member-order sensitive) is listed.",
    technique="Lean 4 theorems (general atomicity via undo-log inversion, rejection, purity of test) + correspondence vs executable Lean RFC 6902 Spec",
    design="§5 C15, §9.2")

CLAIMED["C04"] = dict(
    text="Lean 4 proofs about step-for-step models (64-bit wrap-around explicit) of dec_to_integer, from_integer, the parser's integer "
         "classification and basic_bigint's limb loops: integer literals parse exactly or report out-of-range at both 64-bit boundaries, stored "
         "integers print as their exact digits and parse back (incl. INT64_MIN), out-of-range literals are kept digit for digit; bigint DDproduct, "
         "*= word, *= bigint (schoolbook with its early exits), += / -= / compare, <<= / >>=, the decimal-string constructor, from_bytes_be / "
         "write_bytes_be (and their round trip), division by one word on the modelled exits, and print-then-parse for one-word values "
         "(multi-word printing conditional on the exactness of divide(10^19), made an explicit premise) are exact for all operands. The models are "
         "tied WORD FOR WORD to the real member functions (operands built directly into the limbs). Doubles (shortest <= 17 digit printing that parses "
         "back in every float_chars_format at precision 0, correctly rounded rendering at explicit precisions, correctly rounded parsing), the Knuth "
         "exit of divide and hex text are decided per case against exact Python arithmetic on boundary-directed inputs.",
    note="Partial: Grisu3/snprintf digit generation, strtod/from_chars, the general (Knuth) division path (normalize/DDquotient/subtractmul/"
         "unnormalize) and multi-word write_string are validated per case (Python int / correctly rounded float() as oracle), not proved. D19, D20, "
         "D83 (a % a assertion), D85 (wrong quotient when leading words are equal) found and fixed. Observed, not flagged: float_format fixed with "
         "precision 0 writes a tiny double that grisu3 declines as 0.00000000000000000 (documented %.17f fallback).",
    technique="Lean 4 theorems (exact integer parse/print; bigint multiply, shift, radix, byte and one-word-division loops) + word-for-word "
              "correspondence + exact-arithmetic oracle",
    design="§5 C04, §9.2")

CLAIMED["C01"] = dict(
    text="Lean 4 proofs about a bug-faithful model of the serializer (JV.Model.JsonEncode: basic_compact_json_encoder and the indenting "
         "basic_json_encoder with every layout option - indent size/char, new_line_chars, spaces around colon/comma, both paddings, all five "
         "line-split options x three kinds, line_length_limit, escape_solidus - tied BYTE FOR BYTE to the real dump / dump_pretty on every run) and "
         "of escape_string: for every well-formed value at any nesting and every option record, the RFC 8259 reference parser reads the compact "
         "text and the indented text back as exactly that value (compact_parses_back, pretty_parses_back), re-serialising is the identity on bytes "
         "(compact_canonical, pretty_canonical), the indented text differs from the compact one only by white space outside strings "
         "(pretty_only_adds_whitespace), and the escaper's output reads back as the original string for every byte string. int/float distinction, "
         "number printing (Grisu3/libc), the three entry points agreeing and wchar_t are decided per case on the real code with the Lean reference "
         "parser and exact arithmetic as judges. The escaper's case table is regenerated from the source on every run (C01X, tools/extract.py).",
    note="Partial: doubles are number literals in the model (their digits come from Grisu3/snprintf, validated per case); escape_all_non_ascii=true, "
         "noesc-tagged strings, byte strings, non-raw bignum_format and exceeding max_nesting_depth are outside the model and only observed. "
         "-0.0 prints as 0.0 (equal values).",
    technique="Lean 4 theorems (serializer model: round trip, canonical form, pretty = compact + white space, for all values x option records) + "
              "byte-exact correspondence with dump/dump_pretty + extracted tables (decide) + Lean RFC 8259 reference parser as oracle",
    design="§5 C01, §9.2")
CLAIMED["C02"] = dict(
    text="Lean 4 model of the parser state machine (JV.Model.JsonParser: one arm per (parse_state, character) cell of json_parser.hpp, the number "
         "and string sub-automata, escapes and surrogate pairing, unicode_traits::validate, end-of-input and check_done), tied to the real parser "
         "on every run STATE BY STATE (guarded hook verif_inspect: state, number/string sub-state, level, state stack, buffer, code points after "
         "every piece) and outcome by outcome (error code + event sequence) under whole / byte-by-byte / random chunkings. PROVED FOR ALL BYTE STRINGS, "
         "with comments and trailing commas off: the model accepts a text if and only if the RFC 8259 reference grammar (JV.Spec.Rfc8259, any nesting "
         "up to max_nesting_depth) derives it, and then reports exactly the events of the value the grammar assigns - structure, member names in "
         "document order, string contents with every escape and surrogate pair decoded, number literals unchanged (parse_complete, parse_sound, "
         "parse_exact) - except on texts with one of two surrogate-escape anomalies, which are characterised exactly by a decidable scan "
         "(NoSurrogateAnomaly; disagreement_iff_anomaly: they are the ONLY divergence; the property assigns such texts no value). Also proved: the "
         "UTF-8 validator accepts exactly RFC 3629; the number sub-automaton is the RFC 8259 number production; the nesting level never exceeds the "
         "limit and the limit test is exact. The parser's case tables, error codes, state enumerations, digit and UTF-8 tables are regenerated from the "
         "source on every run and proved equal to the RFC character classes (C02X, decide). The real parser is additionally judged on every run "
         "against the reference: bounded-exhaustive token strings, generated+mutated documents, every comment/comma placement, depth limit-1/limit/limit+1; "
         "first-duplicate-wins and number values by the decoder streams.",
    note="Options: exactness is also proved with allow_trailing_comma on (parse_exact_any_trailing_comma: the flag relaxes exactly the comma before a closing "
         "bracket); with allow_comments on, COMPLETENESS is proved (every text the comment-aware grammar derives, with no comment after the root value - the "
         "recorded divergence D22 - is accepted with the same events: parse_complete_options), a strictly accepted text stays accepted under every option "
         "setting with the same events (options_only_relax), and the comments flag is irrelevant for texts without '/' (options_relax_exactly_slash_free); "
         "soundness with comments on is proved for documents whose root is a literal or a number (parse_exact_comments_scalars, with the comment-aware "
         "white-space inversion acc_skip) and otherwise decided per case (real parser = model = reference with the matching flag on every generated input). The theorems are about "
         "the model; the model is tied to json_parser.hpp by the state-level correspondence on generated inputs, not by proof. wchar_t is not exercised. "
         "D80 (block comment ending in **/) was found while building the model and fixed; known finding D22 (comment after the root value) is listed.",
    technique="Lean 4 theorems: the state-machine model of json_parser.hpp accepts exactly the RFC 8259 grammar with the specified events (both directions, "
              "all inputs) + state-level correspondence through a guarded hook + extracted tables (decide) + Lean RFC 8259 reference parser as oracle",
    design="§5 C02, §9.2")
CLAIMED["C03"] = dict(
    text="Lean 4 proofs: (1) for every way of cutting a text into pieces (any number, any sizes, empty pieces included) the parser model "
         "(JV.Model.JsonParser = json_parser.hpp fed one character per update(), i.e. every 'buffer exhausted' branch taken) ends in the same state "
         "with the same events and error code as on the whole text (json_chunk_independent); the real parser is tied to that model under every "
         "chunking by comparing its suspended state after every piece (hook verif_inspect) and its outcome, so the fast paths and resume code are "
         "what the tie exercises; (2) for every chunk size k >= 1 and every request sequence the model of stream_source hands out exactly the flat "
         "byte sequence. Agreement of parser / reader / stream reader with 1..16-byte buffers / iterator source / pull cursor (read_to and event-wise), "
         "and of the binary decoders over buffer vs stream sources, is decided per input on the real code: every 2-way split, uniform chunks 1..7, "
         "random splits, all prefixes of boundary texts.",
    note="Partial: the cursor/reader glue, CSV chunking and the binary decoders under chunking are observed (all deliveries must coincide), not proved. "
         "Known finding D21 (cursor on value-less input) is listed; D1, D17, D23, D30 fixed.",
    technique="Lean 4 theorems (chunk independence of the parser model; stream_source refines the flat source for all chunk sizes) + state-level "
              "correspondence under all chunkings + all-deliveries-agree oracle",
    design="§5 C03, §9.2")

CLAIMED["C06"] = dict(
    text="Lean 4 proofs that the encoder models of CBOR, MessagePack, UBJSON and BSON (each tied BYTE FOR BYTE to encode_cbor / encode_msgpack / "
         "encode_ubjson / encode_bson on every run, every width boundary +-1 included) write, for every value of the data-model core (null, bool, all int64/uint64 "
         "- UBJSON: up to 2^63-1, above that the encoder refuses and so does the model -, doubles incl. the float32-when-exact shortcut, UTF-8 text, "
         "byte strings, arrays, maps, any nesting), bytes that the format's reference decoder (RFC 8949 / MessagePack spec / UBJSON draft 12 / BSON 1.1 - root documents and root arrays, int32/int64 by magnitude, "
         "cstring names, arrays as documents keyed by the decimal index, back-patched lengths -, the same "
         "ones the real decoders are judged against in C07) reads back as exactly that value under the documented mapping (UBJSON byte strings come "
         "back as arrays of integers); all integer and length width boundaries are inside the case splits (cbor_roundtrip, msgpack_roundtrip, "
         "ubjson_roundtrip, bson_roundtrip_decode and the per-head lemmas). CBOR big floats: text/bytes round trip for every mantissa and exponent. Tags, string packing, "
         "typed arrays and bignum magnitudes on both sides of every length-header boundary are decided per case on the real code.",
    note="Partial: all tag handling (and BSON's non-core element types) are validated by differential round-trip testing only; doubles in the binary32-subnormal exponent band "
         "carry the side condition DoubleOK (checked per case); MessagePack lengths >= 2^32 are outside OKm (the encoder writes no head there; "
         "unreachable in practice). D26 (stringref vs bignums), D79 (bigfloat with bignum mantissa) found and fixed.",
    technique="Lean 4 theorems (encode/decode round trip for CBOR, MessagePack, UBJSON, BSON on the core, all values) + byte-exact correspondence of the four "
              "encoder models + round-trip oracle",
    design="§5 C06, §9.2")
CLAIMED["C07"] = dict(
    text="Lean 4 models of the REAL CBOR, MessagePack and UBJSON decoders (JV.Model.UbjsonParser = ubjson_parser.hpp: every marker, typed / counted / open containers, no-ops, high-precision numbers, get_length, read_key, max_items and depth limits; tied to the real decoder on ~70k inputs per run with 0 mismatches; proved against the reference per fragment - integers of every width, floats, strings, truncation, limits - for all inputs), and of the REAL CBOR and MessagePack decoders (JV.Model.MsgpackParser = msgpack_parser.hpp: all 256 type bytes, get_size, UTF-8 check, ext / fixext and the three timestamp layouts, the nesting check; tied to the real decoder on ~70k inputs per run and proved to refine the MessagePack reference for all inputs: msgpack_parser_model_refines_spec). CBOR: Lean 4 model of the REAL CBOR decoder (JV.Model.CborParser = cbor_parser.hpp: read_item dispatch, read_uint64 / read_int64 / read_size / read_double, definite and chunked strings with per-chunk UTF-8 validation, definite and indefinite arrays and maps, break handling, simple values, the nesting check, non-text map keys as the generic visitor renders them; tags, stringrefs and typed arrays answer skip), tied to the real decoder outcome by outcome (value or cbor_errc code) on ~60k inputs per run, and PROVED for all inputs and all depth limits to refine the RFC 8949 reference decoder (cbor_parser_model_refines_spec: equal value and rest whenever both give one; the model never accepts ill-formed input; it may additionally refuse for max_nesting_depth_exceeded / number_too_large). The real CBOR, MessagePack, UBJSON and BSON decoders are compared on every run with reference decoders written in Lean 4 from the "
         "specifications, on outputs of independent reference encoders in every legal width and form, mutations, every strict prefix and every 1-2 "
         "(thorough: sampled 3) byte string. Proved about the CBOR reference: integers of all five widths and both majors are read back exactly from "
         "the encoder model's head, reserved additional information 28-31 and truncated heads are ill-formed for every continuation."
         " The MessagePack / UBJSON / BSON type codes, CBOR major types, additional-information constants, typed-array tags and the stringref ladder are "
         "regenerated from the source on every run and proved equal to the specification tables the reference decoders use (C07X).",
    note="Partial: the decoders themselves are not modelled; assurance = differential testing against a Lean reference. Renderings that are jsoncons' own "
         "choice (tags 4/5, typed arrays, stringref, ext types, non-text keys) are 'unjudged' by the reference. D4, D5 fixed; D24, D25 (BSON leniencies) listed.",
    technique="Lean 4 reference decoders (theorems about the CBOR reference) + differential testing of the real decoders",
    design="§5 C07")
CLAIMED["C08"] = dict(
    text="Lean 4 proof about the encoders' container-length bookkeeping (model of cbor_encoder.hpp's stack): event sequences whose announced lengths "
         "are exact are accepted at any nesting, wrong announcements are refused with too_few/too_many; with C06's round trip this gives well-formed, "
         "faithful CBOR on the core. All four binary encoders and both JSON encoders on generated event sequences, MessagePack timestamps and "
         "transcoding between every pair of formats are decided per case, outputs judged by the Lean reference decoders / RFC 8259 parser."
         " Event-level theorems for the four modelled encoders (CBOR, MessagePack, UBJSON stateless emit; BSON a stateful step over a frame stack with back-patching): "
         "feeding the events of any value in the domain yields bytes that the reference decoder maps back to that value (cbor/msgpack/ubjson/bson_output_denotes_input), "
         "the models being tied to the real *_bytes_encoder event by event (stream encoder-events-model, wrong announced lengths and refusals included).",
    note="Partial: proof covers the length bookkeeping and (via C06) CBOR core bytes; other encoders validated by differential testing. D27, D28 fixed; D13 listed.",
    technique="Lean 4 theorems (length bookkeeping; CBOR output denotes input) + outputs judged by Lean reference decoders",
    design="§5 C08")

CLAIMED["C10"] = dict(
    text="Lean 4 proofs: (1) the payload reader all binary decoders use (model of source_reader::read) never grows its buffer beyond the bytes that "
         "actually arrived plus one chunk, for every claimed length; (2) in the parser model tied to json_parser.hpp (C02) the nesting level of a "
         "parser that has not failed never exceeds max_nesting_depth on any input, and both container-opening paths refuse at the limit and admit "
         "below it; (3) the nesting limit of the RFC 8259 reference is exact at every depth; (4) the default limits (1024 for every format, UBJSON "
         "max_items 2^24) are regenerated from the source on every run (C10X). The real decoders and encoders of all formats are checked on every run at "
         "limit-1/limit/limit+1 for every container shape, UBJSON max_items on every container form, heap use under claimed lengths 2^20..2^62 with a "
         "counting operator new through buffer/iterator/stream sources, and stack use of destroy/copy/compare/dump on values nested up to 10^5 "
         "(thorough 10^6) deep."
         " For the CBOR decoder model (tied to cbor_parser.hpp): a decoded value is never nested deeper than max_nesting_depth, k nested arrays / maps / "
         "indefinite arrays decode iff k <= limit and otherwise fail with exactly max_nesting_depth_exceeded (cbor_depth_limit_exact), the output weight plus "
         "the unread rest never exceeds the input length (cbor_output_le_input), and a string header claiming more bytes than supplied is unexpected_eof "
         "for every claimed length below 2^64 (cbor_claimed_length_needs_data).",
    note="Partial: real heap footprint and stack depth are runtime facts, observed by meters in a non-sanitized harness, not proved; the binary parsers' "
         "depth tests are swept, not modelled. D29 (assertion on deep dump) found and fixed.",
    technique="Lean 4 theorems (allocation ledger bound, parser-model level bound, exact depth limit) + extracted defaults (decide) + limit sweeps and "
              "allocation/stack meters on the real code",
    design="§5 C10")

CLAIMED["C09"] = dict(
    text="Lean 4 proofs over the value model of basic_json (a pool of values; arrays = sequences, objects = key-ordered association lists): frame rule "
         "(an operation on one slot never changes another, so a copy shares nothing with its source), swap exchanges, self-assignment is the identity, "
         "insert_or_assign / try_emplace / erase / merge are the finite-map operations and keep sorted unique keys, and the four int64/uint64 comparison "
         "arms (C++ unsigned conversions written out) are exactly the order of the stored numbers. Tie: operation sequences over a pool of 4 json/ojson "
         "values run through the real basic_json and the Lean model, compared result by result and slot by slot; every storage-kind pair from a catalogue "
         "for the relational laws; explicit-storage integer pairs against the Lean compare; is<T>/as<T> on every width boundary."
         " The WHOLE of basic_json::compare (every storage-kind pair, doubles and halves on their bit patterns with static_cast<double>(integer) "
         "rounding written out, strings, byte strings, arrays and sorted objects lexicographically, the kind-index fall-through) is modelled and tied "
         "to the real compare() and the six operators on all ordered pairs of a 165-value boundary alphabet plus generated nestings; proved: "
         "compare a a = 0 and compare b a = -compare a b for all values without NaN (compare_refl, compare_antisymm), and on the sub-domain where "
         "they HOLD (no NaN, no json() empty_object, integers within +-2^53, strings all short or all long) == is an equivalence, < a strict weak "
         "order and == a congruence for <; outside it each law has a kernel-checked counterexample reproduced on the real code.",
    note="Partial: compare() beyond the integer arms (double, half, strings, tagged strings, containers) is checked against the relational laws on a "
         "catalogue of all storage kinds, not proved. D6, D8, D31 (comparison defects) found and fixed; D7 (bignum strings compared through double) known.",
    technique="Lean 4 theorems (frame rule, finite-map laws, integer order) + differential operation sequences against the Lean value model",
    design="§5 C09")

CLAIMED["C12"] = dict(
    text="Lean 4 proofs over a model of jsoncons' JSONPath selectors (identifier, index, wildcard, slice, union, recursive descent, comparison filters), "
         "result options and json_replace: every returned normalized path resolves to exactly the value returned with it, under every option set; the "
         "slice start/stop/step arithmetic selects exactly the RFC 9535 slice for all integers, inside the array, nothing twice, in step order; sort is a "
         "sorted permutation, nodups the first occurrence of each path, sort|nodups a sorted duplicate-free list with the same paths; json_replace leaves every "
         "node that diverges from all selected paths unchanged and every outermost selected node holds the new value. Tie: generated expressions (random "
         "spellings) x json/ojson documents x 7 option sets run through the real library; callback, value, path, compiled (twice), select and select_paths "
         "forms cross-checked; paths re-resolved independently; node lists and json_replace results compared with the Lean model.",
    note="Partial: the expression parser is not modelled (the generator renders the AST to text; a parser slip shows as a node-list difference); functions, "
         "the length pseudo-member, integer-like identifiers on arrays, parent operator, regex and arithmetic in filters, and doubles are outside the model. "
         "D3 (slice index overflow), D32 (json_replace moved the new value), D33 (sort_descending without paths) found and fixed.",
    technique="Lean 4 theorems (paths resolve, RFC 9535 slice equivalence, option laws, json_replace exactness) + differential queries against the Lean selector model",
    design="§5 C12")

CLAIMED["C13"] = dict(
    text="A reference interpreter for JMESPath written in Lean 4 from the specification (identifiers, sub-expressions, index/slice, list/object/flatten/"
         "filter projections with null-dropping and projection scoping, pipes, ||, &&, !, comparisons, multiselect lists/hashes, literals, 23 built-in "
         "functions with their type/arity checks and expression references). Proved about it: projections drop nulls and are null off their container "
         "type, pipe associativity, !! = truthiness, || and && idempotent and short-circuiting, reverse involution, to_array idempotent, sort returns a "
         "sorted permutation, and its slice rule equals - for all integers - the start/stop/step arithmetic the implementation executes (itself proved "
         "equal to RFC 9535 / Python slicing). Tie: generated expressions (document-guided, depth 3, random spellings) and every function on every "
         "argument kind, evaluated by jsoncons (one-shot, error_code and throwing overloads, compiled twice, document checked unchanged) and judged "
         "against the reference's value or error kind.",
    note="Partial: the reference is integer-only (an evaluation that leaves the integers is unjudged), to_string of non-strings and contains(string, "
         "non-string) are unjudged, avg/ceil/floor and let-expressions are not modelled; unknown-function, arity and zero-step errors may be reported "
         "at compile time by the library and are accepted as such. jsoncons' expression parser is not modelled: the generator renders the AST to text. "
         "Found and fixed: D34 D35 D36 D37 D38 D39 D40 D41 D42 and the slice overflow D3b.",
    technique="Lean 4 reference interpreter + theorems (projection laws, operator identities, slice rule = implementation arithmetic) + differential search",
    design="§5 C13")

CLAIMED["C18"] = dict(
    text="Lean 4 proofs over a model of the CSV field layer (write_string_value/escape_string; parser states unquoted_string, quoted_string, "
         "escaped_value): for all delimiter/quote/escape characters that can be told apart, quote styles minimal/all/nonnumeric and all byte strings, the "
         "written field is read back exactly and the scan stops at the terminator; fields with a delimiter, quote or line break are quoted; whole records "
         "round-trip. Tie in both directions: the encoder model reproduces the real encoder's text byte for byte on generated tables, the parser model "
         "reads arbitrary texts over the significant characters exactly like the real parser. Round-trip streams on the real code: tables (arrays of "
         "arrays, arrays of objects, column objects; strings with delimiters, quotes, line breaks, outer blanks, empties, scalars) x delimiter x quote x "
         "escape x style x line ending x inference; JSON values x TOON indent/delimiter.",
    note="Partial: TOON has no Lean model (round trip observed on the real code only) and three structural TOON defects plus one CSV limitation are "
         "recorded as known findings (D44, D51, D52, D53); record assembly, headers and type inference are checked, not proved; an input ending inside a "
         "quoted field is outside the parser model. Found and fixed: D12 D43 D45 D46 D49 D50 D56.",
    technique="Lean 4 theorems (CSV field and record round trip for all contents and option characters) + two-way differential tie + round-trip streams",
    design="§5 C18")

CLAIMED["C17"] = dict(
    text="A Lean 4 model of what the reflection traits compute over a universe of type descriptors (integers, string, bool, sequences, sets, maps, tuples, "
         "pairs, fixed arrays, optionals/pointers, enums, variants, member-macro structs with mandatory and optional members): conv t j = convert j to the "
         "type and express it as JSON again. Proved for the container/scalar fragment: the conversion is a retraction (a converted value converts to itself = "
         "typed round trip) and failure carries no value; short tuples and wrong-length arrays are errors. Tie: 23 concrete C++ types mirroring the descriptors "
         "x JSON/CBOR/MessagePack/UBJSON/BSON, generated fitting and mis-shaped values, both routes (basic_json as<T>/json(T) and decode_X<T>/encode_X(T)), "
         "try_ variants, typed re-encoding and round trip compared with each other and with the model.",
    note="Partial: templates cannot be quantified over; only the 23 types of the family are exercised, and sets, variants and structs are outside the "
         "theorem. Integer narrowing (as<T> converts modulo 2^n), integers from strings and stringification (D57, known) are unjudged. std::set<int> does not "
         "compile with the streaming encoders (compile-time, noted in DESIGN.md). Found and fixed: D58 (tuple out-of-bounds read) D59 D60 D61 D62.",
    technique="Lean 4 conversion model + retraction theorem + differential check of both typed routes in five formats",
    design="§5 C17")

CLAIMED["C11"] = dict(
    text="A reference validator in Lean 4, written from the specification, for the unambiguous core of JSON Schema (type, enum, const, numeric and length "
         "bounds, multipleOf, uniqueItems, prefixItems/items, contains with min/maxContains, properties/additionalProperties, required, min/maxProperties, "
         "propertyNames, dependentRequired, allOf/anyOf/oneOf/not, if/then/else, $ref into $defs, unevaluatedProperties/unevaluatedItems with annotation flow). "
         "Proved about it: boolean schemas, not inverts, double negation, allOf = conjunction, anyOf = disjunction, oneOf = exactly one, if/then/else, "
         "type-specific keywords ignore other types, exclusive bounds reject the bound, unevaluatedProperties:false alone admits only empty objects. Tie: "
         "generated (dialect, schema, instance) triples for Drafts 4/6/7/2019-09/2020-12 in each dialect's spelling; jsoncons' verdict judged against the "
         "reference; is_valid, reporter, throwing and json_visitor forms, reuse of the compiled schema and key-sorted vs insertion-ordered documents "
         "cross-checked in the harness.",
    note="Partial: integers only (no doubles, no big numbers beyond uint64), no pattern/patternProperties/format/$anchor/$dynamicRef/remote $ref; $ref is "
         "acyclic and inlined for the reference. jsoncons' validator is not modelled, it is compared. D63 (multipleOf through double) found and fixed.",
    technique="Lean 4 reference validator + theorems (logical laws of the applicators) + differential verdicts over five dialects",
    design="§5 C11")

CLAIMED["C05"] = dict(
    text="Lean 4 proofs of the index and length computations the C++ uses to address memory: every index the JSONPath/JMESPath slice arithmetic visits is inside "
         "the array for all start/stop/step; the shared payload reader's buffer never exceeds what arrived plus one chunk whatever length is claimed; positional "
         "conversions (tuple, std::array) reject inputs that are too short instead of reading past them; the CSV field scanner is total. Everything else is observed: "
         "every public entry point (decode_* through buffer, stream, cursor, reader and typed forms for JSON, CBOR, MessagePack, UBJSON, BSON, CSV with typed columns, "
         "TOON; JSONPath, JMESPath, JSON Pointer, URI and JSON Schema compilers and their evaluation; encoders under random option sets) is driven with mutated "
         "spec-derived inputs and hand-built hostile ones under ASan+UBSan, every exception classified, every call given a time budget."
         " Every fixed buffer of write_number.hpp and every snprintf call (target, size, format, precision, whether the length is checked before "
         "the target is read) is regenerated from the source on every run and proved to fit or to be length-checked (C05X, tools/extract.py)."
         " Termination of the CBOR decoder model: every item read consumes at least one byte and the fuel 2*|input|+2 never runs out "
         "(cbor_item_consumes, cbor_fuel_suffices); every outcome is a value with a strictly shorter rest or an error code (cbor_decode_outcomes).",
    note="Partial: memory safety, undefined behaviour, leaks, termination and exception types are facts about the compiled artefact; the proofs cover the logic of "
         "bounds only, the rest is sanitizer-observed on a finite set of inputs. D64 (out-of-bounds read in the JMESPath compiler) and D65 (compiler loops forever) "
         "found and fixed here; D3, D34, D39, D58, D59 found by other properties' checks are of this kind too.",
    technique="Lean 4 bounds theorems + sanitizer-instrumented mutation streams over every entry point (observation, not proof)",
    design="§5 C05")

CLAIMED["C19"] = dict(
    text="Lean 4 proof about the one place where basic_json manages raw storage by hand: the order of steps of copy assignment. Building the copy before releasing "
         "the old value is safe for every failure point; the order the code had is not (the theorem exhibits the failing point; repaired as D14). The real library is "
         "swept: for each scenario (parse, decode CBOR/MessagePack, deep copy, assignment over an existing value, insertion with reallocation, apply_patch, "
         "apply_merge_patch, json_query, jmespath search, schema compilation and validation, dump/encode) and generated input, std::bad_alloc is injected at "
         "allocation 1..N through a replaced global operator new; after each failure no block is outstanding, survivors are valid and sources unchanged.",
    note="Partial: which allocation sites exist and what is live at each is a fact about the compiled code, observed per scenario, not proved; stateful allocators are "
         "not exercised. D66 (apply_patch not atomic under allocation failure) is a known finding; D14 and D67 found and fixed.",
    technique="Lean 4 protocol theorem (copy-before-destroy) + exhaustive allocation-failure injection over scenario families on the real code",
    design="§5 C19")

CLAIMED["C20"] = dict(
    text="Lean 4 proof of what immutability buys: if no step writes the shared artifact, then under every interleaving each thread ends with exactly what it computes "
         "alone, hence the same as single-threaded use. That the C++ meets the premise is observed with ThreadSanitizer: compiled JSON Schemas, JSONPath and JMESPath "
         "expressions and basic_json documents are shared by 2-16 threads released together on a fresh artifact per round; every thread's results are compared with "
         "those of a separately built copy used sequentially.",
    note="Partial: data races are facts about the compiled program under the C++ memory model; TSan observes the executed schedules only. The theorem is about the "
         "abstract consequence (schedule independence of readers), its premise is checked dynamically, not proved.",
    technique="Lean 4 schedule-independence theorem + ThreadSanitizer runs with result comparison on shared compiled artifacts",
    design="§5 C20")

ALL = ["C%02d" % i for i in range(1, 21)]
NOT_YET = "not claimed yet: the Lean model, theorems and correspondence harness for this property are still being built (see DESIGN.md §8 staging)"


def main():
    hooks_commits = []
    try:
        out = subprocess.run(["git", "-C", "/repo", "log", "--format=%H %s"], stdout=subprocess.PIPE).stdout.decode()
        hooks_commits = [l.split()[0] for l in out.split("\n") if l[41:].startswith(("verif-hook:", "verif hook:"))]
    except Exception:
        pass
    m = {
        "version": 1,
        "setup_cmd": "cd /verif/lean && lake build JV jvdriver",
        "hooks": {
            "guard": "JSONCONS_VERIF",
            "enable": "harnesses are compiled with -DJSONCONS_VERIF -I/repo/include (header-only library; see vlib.py CXXFLAGS)",
            "baseline_off_cmd": "cmake --build /repo/_build -j16 && ctest --test-dir /repo/_build -j8 --timeout 900",
            "source_commits": hooks_commits,
            "add_only": True,
        },
        "engines": [
            {"name": "lean4-proof+correspondence", "path": "/verif/check.py", "serves_properties": sorted(CLAIMED),
             "kind_free_text": "Lean 4 theorems about a hand-written executable model (lean/JV), tied to the code by a differential correspondence "
                               "harness (harness/*.cpp vs lean_exe jvdriver) and, for table-like code, by tools/extract.py regenerating lean/JV/Extracted"},
        ],
        "checks": [],
        "not_applicable": [],
        "notes": "See DESIGN.md. Every check: lake build of the property's theorems, axiom audit, harness rebuilt from /repo's working tree, "
                 "correspondence + property oracle, search on break, known findings from known_findings.json.",
    }
    for pid in ALL:
        if pid in CLAIMED:
            c = CLAIMED[pid]
            m["checks"].append({
                "property_id": pid,
                "quick_cmd": "python3 check.py %s --tier quick" % pid,
                "thorough_cmd": "python3 check.py %s --tier thorough" % pid,
                "evidence_file": "/verif/evidence/%s.json" % pid,
                "replay_cmd_template": "python3 check.py %s --replay {path}" % pid,
                "engine": "lean4-proof+correspondence",
                "level_claimed": {"category": "proof", "text": c["text"], "design_ref": c["design"]},
                "level_note": c["note"],
                "technique": c["technique"],
            })
        else:
            m["not_applicable"].append({"property_id": pid, "reason": NOT_YET})
    with open(os.path.join(ROOT, "MANIFEST.json"), "w") as f:
        json.dump(m, f, indent=1)
        f.write("\n")


if __name__ == "__main__":
    main()
