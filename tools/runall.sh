#!/bin/bash
# usage: tools/runall.sh [quick|thorough] [seed]   — every claimed check in turn; one summary line each
cd "$(dirname "$0")/.."
tier=${1:-quick}; seed=${2:-1}
fail=0
for p in $(python3 -c "import json; print(' '.join(c['property_id'] for c in json.load(open('MANIFEST.json'))['checks']))"); do
  out=$(VERIF_SEED=$seed python3 check.py $p --tier $tier 2>&1); rc=$?
  echo "$p rc=$rc $(echo "$out" | grep -E '^(OK|VIOLATION)' | head -2 | tr '\n' ' ' | cut -c1-200) known=$(echo "$out" | grep -c '^KNOWN-FINDING')"
  [ $rc -ne 0 ] && fail=1
done
exit $fail
