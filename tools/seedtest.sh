#!/bin/bash
# usage: tools/seedtest.sh <patch.diff> <property id> [tier]   — apply a seeded change to /repo, run the check, undo it
set -u
patch="$1"; prop="$2"; tier="${3:-quick}"
cd /repo || exit 2
if [ -n "$(git status --porcelain --untracked-files=no)" ]; then echo "repo not clean"; exit 2; fi
git apply "$patch" || { echo "patch does not apply"; exit 2; }
cd /verif && python3 check.py "$prop" --tier "$tier" 2>&1 | grep -E "VIOLATION|KNOWN-FINDING|^OK|Traceback|Error" | head -8
rc=${PIPESTATUS[0]}
git -C /repo checkout -- .
echo "exit=$rc"
