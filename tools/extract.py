#!/usr/bin/env python3
"""The translator (DESIGN.md §3.3): table-like code of jsoncons -> Lean data, regenerated on every run.

    python3 tools/extract.py --repo /repo --out lean/JV/Extracted [--selftest] [--cpp]

Deliberately narrow.  Every item is found through a named anchor in the header text (a #define, an
`enum class`, a `namespace x {` of constants, an array initialiser, a function body found by brace
matching); if an anchor is missing or what is found there does not have the expected literal shape the
program stops with `anchor not found: ...` / `unexpected form: ...` and exit status 1 - it never guesses.
vlib.run_extract() records that as a broken "translator" tie.

Output: one Lean file per group under --out, namespace JV.Extracted, plain `def x : List Nat := [...]`,
`List (String × Nat)` ... ; a file is rewritten only when its content changes (lake then rebuilds only what
depends on it).  Theorems over these definitions live in lean/JV/Props/C??X.lean and are closed by `decide`,
so changing a table entry in the C++ source breaks a proof obligation directly.

--cpp      additionally expands the case-label macros with `g++ -E -P` and requires the same lists
--selftest re-parses the written Lean files and checks names and table lengths against what was extracted
"""
import argparse
import os
import re
import subprocess
import sys
import tempfile

# ------------------------------------------------------------------------------------------------
# failure


class ExtractError(Exception):
    pass


def fail(kind, what):
    raise ExtractError("%s: %s" % (kind, what))


def anchor(rx, text, what, flags=0, start=0):
    m = re.compile(rx, flags).search(text, start)
    if not m:
        fail("anchor not found", what)
    return m


# ------------------------------------------------------------------------------------------------
# C++ text helpers


def strip_comments(src):
    """remove // and /* */ comments, keep string and character literals intact, keep line structure"""
    out = []
    i, n = 0, len(src)
    while i < n:
        c = src[i]
        if c == '"' or c == "'":
            j = i + 1
            while j < n and src[j] != c:
                j += 2 if src[j] == "\\" else 1
            out.append(src[i:j + 1])
            i = j + 1
        elif src.startswith("//", i):
            j = src.find("\n", i)
            i = n if j < 0 else j
        elif src.startswith("/*", i):
            j = src.find("*/", i + 2)
            if j < 0:
                fail("unexpected form", "unterminated comment")
            out.append("\n" * src.count("\n", i, j + 2) or " ")
            i = j + 2
        else:
            out.append(c)
            i += 1
    return "".join(out)


def match_close(text, i, open_c="{", close_c="}"):
    """text[i] == open_c; index of the matching close, skipping literals"""
    assert text[i] == open_c, (text[i - 20:i + 20], open_c)
    depth = 0
    n = len(text)
    while i < n:
        c = text[i]
        if c == '"' or c == "'":
            j = i + 1
            while j < n and text[j] != c:
                j += 2 if text[j] == "\\" else 1
            i = j + 1
            continue
        if c == open_c:
            depth += 1
        elif c == close_c:
            depth -= 1
            if depth == 0:
                return i
        i += 1
    fail("unexpected form", "unbalanced %s%s" % (open_c, close_c))


def block_after(text, m_end, what):
    """the {...} block that starts at the first '{' at or after m_end (only white space / ':' base clauses before it)"""
    i = text.find("{", m_end)
    if i < 0:
        fail("anchor not found", what + " (no body)")
    j = match_close(text, i)
    return text[i + 1:j], i + 1, j


CHAR_ESC = {"n": 10, "t": 9, "r": 13, "b": 8, "f": 12, "v": 11, "a": 7, "0": 0, "\\": 92, "'": 39, '"': 34, "?": 63}


def c_char(tok, what):
    m = re.fullmatch(r"'(\\.|[^\\'])'", tok)
    if not m:
        fail("unexpected form", "%s: character literal %r" % (what, tok))
    s = m.group(1)
    if s[0] == "\\":
        if s[1] not in CHAR_ESC:
            fail("unexpected form", "%s: escape %r" % (what, tok))
        return CHAR_ESC[s[1]]
    return ord(s)


def c_int(tok, what):
    """integer literal (dec/hex/oct/bin, suffixes), character literal, or `A << B` of those"""
    tok = tok.strip()
    while tok.startswith("(") and tok.endswith(")") and match_close(tok, 0, "(", ")") == len(tok) - 1:
        tok = tok[1:-1].strip()
    if "<<" in tok:
        a, b = tok.split("<<", 1)
        return c_int(a, what) << c_int(b, what)
    if tok.startswith("'"):
        return c_char(tok, what)
    m = re.fullmatch(r"(0[xX][0-9a-fA-F']+|0[bB][01']+|[0-9][0-9']*)([uUlL]*)", tok)
    if not m:
        fail("unexpected form", "%s: integer literal %r" % (what, tok))
    d = m.group(1).replace("'", "")
    if d[:2] in ("0x", "0X"):
        return int(d, 16)
    if d[:2] in ("0b", "0B"):
        return int(d[2:], 2)
    if len(d) > 1 and d[0] == "0":
        return int(d, 8)
    return int(d)


def parse_enum(text, name, what):
    """enum class NAME [: type] { a [= v], b, ... }  ->  [(a, v), ...] with C++ numbering"""
    m = anchor(r"\benum\s+class\s+" + re.escape(name) + r"\b\s*(?::\s*[\w:]+\s*)?\{", text, what)
    i = m.end() - 1
    j = match_close(text, i)
    body = text[i + 1:j]
    out = []
    nxt = 0
    for item in body.split(","):
        item = item.strip()
        if not item:
            continue
        mm = re.fullmatch(r"([A-Za-z_]\w*)\s*(?:=\s*(.+))?", item, re.S)
        if not mm:
            fail("unexpected form", "%s: enumerator %r" % (what, item))
        v = c_int(mm.group(2), what) if mm.group(2) is not None else nxt
        out.append((mm.group(1), v))
        nxt = v + 1
    if not out:
        fail("unexpected form", what + ": empty enum")
    return out


CONST_RX = re.compile(r"\b(?:JSONCONS_INLINE_CONSTEXPR|static\s+constexpr|constexpr)\s+(?:const\s+)?([\w:]+)\s+([A-Za-z_]\w*)\s*=\s*((?:'(?:\\.|[^\\'])'|[^;{}'])+);")


def parse_constants(text, what, need=None, only=None):
    """`JSONCONS_INLINE_CONSTEXPR T name = literal;` in text -> [(name, value)] in source order;
    `only` (predicate on the name) restricts a whole-file scan to the constants asked for"""
    out = []
    for m in CONST_RX.finditer(text):
        if only is not None and not only(m.group(2)):
            continue
        out.append((m.group(2), c_int(m.group(3), what + "." + m.group(2))))
    if not out:
        fail("anchor not found", what + " (no constants)")
    if only is None:
        n_kw = len(re.findall(r"\b(?:JSONCONS_INLINE_CONSTEXPR|constexpr)\b", text))
        if n_kw != len(out):
            fail("unexpected form", "%s: %d constexpr declarations, %d of them literal constants" % (what, n_kw, len(out)))
    for n in need or []:
        if n not in dict(out):
            fail("anchor not found", "%s.%s" % (what, n))
    return out


def namespace_body(text, name, what):
    m = anchor(r"\bnamespace\s+" + re.escape(name) + r"\s*\{", text, what)
    i = m.end() - 1
    return text[i + 1:match_close(text, i)]


def parse_array(text, name, what, size=None, pad=False):
    """T name[N] = { literals }; with pad, fewer initialisers than N are completed with zeros as C++ does"""
    m = anchor(r"\b" + re.escape(name) + r"\s*\[\s*(\d*)\s*\]\s*=\s*\{", text, what)
    i = m.end() - 1
    j = match_close(text, i)
    vals = [c_int(t, what) for t in text[i + 1:j].split(",") if t.strip()]
    decl = int(m.group(1)) if m.group(1) else len(vals)
    if pad and len(vals) < decl:
        vals = vals + [0] * (decl - len(vals))
    if decl != len(vals):
        fail("unexpected form", "%s: declared %d entries, %d initialisers" % (what, decl, len(vals)))
    if size is not None and decl != size:
        fail("unexpected form", "%s: expected %d entries, found %d" % (what, size, decl))
    return vals


def parse_case_macro(raw, macro, what, leading_case):
    """#define MACRO \\ case 0x00:case 0x01: ... (line continuations)  -> [ints]"""
    m = anchor(r"^[ \t]*#[ \t]*define[ \t]+" + re.escape(macro) + r"\b((?:.*\\\r?\n)*.*)$", raw, what, re.M)
    body = m.group(1).replace("\\\n", " ").replace("\\\r\n", " ").strip()
    toks = [t.strip() for t in body.split(":")]
    vals = []
    for k, t in enumerate(toks):
        if k == 0 and not leading_case:
            lit = t
        else:
            mm = re.fullmatch(r"case\s+(\S+)", t)
            if not mm:
                fail("unexpected form", "%s: %r" % (what, t))
            lit = mm.group(1)
        vals.append(c_int(lit, what))
    if not vals:
        fail("unexpected form", what + ": empty")
    return vals


def function_body(text, rx_header, what):
    """body of the function whose header matches rx_header (the regex must end just before the parameter list's '(')"""
    m = anchor(rx_header, text, what)
    i = text.find("(", m.start())
    j = match_close(text, i, "(", ")")
    k = j + 1
    mm = re.compile(r"\s*(?:const\s*)?(?:noexcept\s*)?\{").match(text, k)
    if not mm:
        fail("unexpected form", what + ": no body after the parameter list")
    b = mm.end() - 1
    e = match_close(text, b)
    return text[b + 1:e], text[i + 1:j]


def case_labels(body, what):
    """the first switch in body, split at its own `case X:` / `default:` labels (nested blocks are not entered):
    [(label text or None for default, text up to the next label)]"""
    m = anchor(r"\bswitch\s*\(", body, what + " switch")
    j = match_close(body, m.end() - 1, "(", ")")
    blk, _, _ = block_after(body, j, what + " switch")
    rx = re.compile(r"case\s+((?:'(?:\\.|[^\\'])'|[^:'])+?)\s*:(?!:)|default\s*:")
    marks = []
    depth = 0
    i, n = 0, len(blk)
    while i < n:
        c = blk[i]
        if c in "\"'":
            j = i + 1
            while j < n and blk[j] != c:
                j += 2 if blk[j] == "\\" else 1
            i = j + 1
            continue
        if c in "{(":
            depth += 1
        elif c in "})":
            depth -= 1
        elif depth == 0 and c in "cd" and (i == 0 or not (blk[i - 1].isalnum() or blk[i - 1] == "_")):
            mm = rx.match(blk, i)
            if mm:
                marks.append((i, mm.end(), mm.group(1)))
                i = mm.end()
                continue
        i += 1
    if not marks:
        fail("unexpected form", what + ": switch without case labels")
    return [(lab, blk[e:(marks[k + 1][0] if k + 1 < len(marks) else n)]) for k, (s, e, lab) in enumerate(marks)]


# ------------------------------------------------------------------------------------------------
# Lean text helpers


def lean_nat(v):
    if not isinstance(v, int) or v < 0:
        fail("unexpected form", "negative or non-integer value %r" % (v,))
    return str(v)


def lean_str(s):
    return '"' + s.replace("\\", "\\\\").replace('"', '\\"') + '"'


def lean_val(v):
    if isinstance(v, bool):
        return "true" if v else "false"
    if isinstance(v, int):
        return lean_nat(v)
    if isinstance(v, str):
        return lean_str(v)
    if isinstance(v, tuple):
        return "(" + ", ".join(lean_val(x) for x in v) + ")"
    fail("unexpected form", "value %r" % (v,))


def lean_type(v):
    if isinstance(v, bool):
        return "Bool"
    if isinstance(v, int):
        return "Nat"
    if isinstance(v, str):
        return "String"
    if isinstance(v, tuple):
        return " × ".join(lean_type(x) for x in v)
    fail("unexpected form", "value %r" % (v,))


class LeanFile:
    def __init__(self, name, title, imports=()):
        self.name = name
        self.title = title
        self.imports = list(imports)
        self.defs = []       # (name, type, text, doc, length|None)

    def scalar(self, name, v, doc):
        self.defs.append((name, lean_type(v), lean_val(v), doc, None))

    def table(self, name, rows, doc, elem_type=None):
        if elem_type is None:
            if not rows:
                fail("unexpected form", "empty table " + name)
            elem_type = lean_type(rows[0])
        per = 16 if elem_type == "Nat" else (4 if "String" in elem_type else 8)
        lines = []
        for i in range(0, len(rows), per):
            lines.append("  " + ", ".join(lean_val(r) for r in rows[i:i + per]))
        body = "[\n" + ",\n".join(lines) + "]" if len(rows) > per else "[" + ", ".join(lean_val(r) for r in rows) + "]"
        self.defs.append((name, "List (%s)" % elem_type if "×" in elem_type else "List " + elem_type, body, doc, len(rows)))

    def render(self):
        o = ["/-", "  JV.Extracted.%s — %s" % (self.name, self.title), "",
             "  GENERATED by tools/extract.py from the jsoncons headers on every run (vlib.run_extract); do not edit.",
             "  A change here is a change in the C++ source; theorems in JV/Props/C??X.lean are stated over these definitions.",
             "-/"]
        for imp in self.imports:
            o.append("import " + imp)
        o.append("namespace JV.Extracted")
        o.append("")
        for name, ty, text, doc, _ in self.defs:
            o.append("/-- %s -/" % doc)
            o.append("def %s : %s := %s" % (name, ty, text))
            o.append("")
        o.append("end JV.Extracted")
        return "\n".join(o) + "\n"


LOOKUP_LEAN = """/-
  JV.Extracted.Lookup — helpers over the generated tables (static text written by tools/extract.py).
-/
namespace JV.Extracted

/-- value of `name` in a (name, value) table -/
def lookup (t : List (String × Nat)) (name : String) : Option Nat :=
  match t with
  | [] => none
  | (n, v) :: r => if n = name then some v else lookup r name

/-- the values of a (name, value) table -/
def values (t : List (String × Nat)) : List Nat := t.map (·.2)

/-- pairwise distinct -/
def distinct : List Nat → Bool
  | [] => true
  | x :: xs => !xs.contains x && distinct xs

/-- 256-entry table indexed by a byte; out of range is 0 -/
def at' (t : List Nat) (i : Nat) : Nat := t.getD i 0

end JV.Extracted
"""

# ------------------------------------------------------------------------------------------------
# the extraction proper


class Src:
    def __init__(self, repo):
        self.repo = repo
        self.cache = {}

    def raw(self, rel):
        if ("raw", rel) not in self.cache:
            p = os.path.join(self.repo, "include", rel)
            if not os.path.exists(p):
                fail("anchor not found", "file include/" + rel)
            with open(p, encoding="utf-8", errors="replace") as f:
                self.cache[("raw", rel)] = f.read()
        return self.cache[("raw", rel)]

    def text(self, rel):
        if ("txt", rel) not in self.cache:
            self.cache[("txt", rel)] = strip_comments(self.raw(rel))
        return self.cache[("txt", rel)]


def push_pairs(seg, what):
    """the characters of consecutive `sink.push_back(<char literal>);` at the start of a case group"""
    out = []
    pos = 0
    rx = re.compile(r"\s*sink\s*\.\s*push_back\s*\(\s*('(?:\\.|[^\\'])')\s*\)\s*;")
    while True:
        m = rx.match(seg, pos)
        if not m:
            break
        out.append(c_char(m.group(1), what))
        pos = m.end()
    return out, seg[pos:]


def x_json_tables(S):
    f = LeanFile("JsonTables", "case-label sets of the JSON parser and of the string escaper")
    rel = "jsoncons/json_parser.hpp"
    raw = S.raw(rel)
    txt = S.text(rel)
    ill = parse_case_macro(raw, "JSONCONS_ILLEGAL_CONTROL_CHARACTER", rel + ": #define JSONCONS_ILLEGAL_CONTROL_CHARACTER", True)
    f.table("illegalControl", ill, "`JSONCONS_ILLEGAL_CONTROL_CHARACTER` (json_parser.hpp): the case labels, in source order")
    uses = len(re.findall(r"^\s*JSONCONS_ILLEGAL_CONTROL_CHARACTER\s*:", txt, re.M))
    f.scalar("illegalControlUses", uses, "number of `switch` statements of json_parser.hpp that use the macro as a case group")

    # parse_string, label `text:` — the group of raw white-space characters refused inside a string
    m = anchor(r"\n\s*text\s*:\s*\n", txt, rel + ": label `text:` of parse_string")
    groups = case_labels(txt[m.end():], rel + ": parse_string text")
    # the macro group is not a `case` label for this scanner (it starts with the macro name); what follows it are the case labels
    ws_in_string = []
    err_in_string = None
    for lab, seg in groups:
        if lab is None:
            break
        ws_in_string.append(c_int(lab, rel + ": parse_string text case"))
        mm = re.search(r"json_errc::(\w+)", seg)
        if mm:
            err_in_string = mm.group(1)
            break
    if not ws_in_string or err_in_string is None:
        fail("anchor not found", rel + ": case group after JSONCONS_ILLEGAL_CONTROL_CHARACTER in parse_string")
    f.table("stringIllegalWhitespace", ws_in_string, "parse_string, `text:` switch: raw characters refused inside a string besides the macro's")
    f.scalar("stringIllegalWhitespaceError", err_in_string, "the json_errc reported for them")
    mm = anchor(r"JSONCONS_ILLEGAL_CONTROL_CHARACTER\s*:\s*\{[^}]*?json_errc::(\w+)", txt[m.end():], rel + ": error of the macro group in parse_string")
    f.scalar("illegalControlError", mm.group(1), "the json_errc reported for the macro's characters inside a string")

    # check_done: what may follow the value
    body, _ = function_body(txt, r"\bvoid\s+check_done\s*\(\s*std::error_code\s*&", rel + ": check_done")
    groups = case_labels(body, rel + ": check_done")
    ws = [c_int(l, rel + ": check_done case") for l, _ in groups if l is not None]
    if not ws or groups[-1][0] is not None:
        fail("unexpected form", rel + ": check_done switch")
    mm = anchor(r"json_errc::(\w+)", groups[-1][1], rel + ": check_done default error")
    f.table("trailingWhitespace", ws, "check_done (json_parser.hpp): characters allowed after the top-level value")
    f.scalar("trailingOtherError", mm.group(1), "the json_errc for anything else there")

    # the white-space case group of the main switch: `case ' ':case '\t':case '\n':case '\r':` followed by skip_space
    sites = re.findall(r"((?:case\s+'(?:\\.|[^\\'])'\s*:\s*)+)skip_space\s*\(", txt)
    if not sites:
        fail("anchor not found", rel + ": case group before skip_space(")
    sets = {tuple(c_char(t, rel) for t in re.findall(r"'(?:\\.|[^\\'])'", s)) for s in sites}
    if len(sets) != 1:
        fail("unexpected form", rel + ": the white-space case groups before skip_space( differ: %r" % (sorted(sets),))
    f.table("structuralWhitespace", list(sets.pop()), "the case group in front of every `skip_space(` of parse_some_: white space between tokens")
    f.scalar("structuralWhitespaceSites", len(sites), "number of such case groups")

    # escape_string
    rel = "jsoncons/json_encoders.hpp"
    txt = S.text(rel)
    body, _ = function_body(txt, r"\bstd::size_t\s+escape_string\s*\(", rel + ": escape_string")
    groups = case_labels(body, rel + ": escape_string")
    esc = []
    default_seg = None
    pending = []
    for lab, seg in groups:
        if lab is None:
            default_seg = seg
            continue
        pending.append(c_int(lab, rel + ": escape_string case"))
        chars, rest = push_pairs(seg, rel + ": escape_string")
        if not chars and not rest.strip():
            continue        # fall-through label
        if len(chars) != 2 or not re.match(r"\s*count\s*\+=\s*2\s*;\s*break\s*;\s*$", rest):
            fail("unexpected form", rel + ": escape_string case %r" % (lab,))
        for b in pending:
            esc.append((b, chars[0], chars[1]))
        pending = []
    if default_seg is None or pending or not esc:
        fail("unexpected form", rel + ": escape_string switch")
    f.table("escapeCases", esc, "escape_string (json_encoders.hpp): (byte, first character written, second character written) per case label")
    mm = anchor(r"if\s*\(\s*escape_solidus\s*&&\s*c\s*==\s*('(?:\\.|[^\\'])')\s*\)\s*\{", default_seg, rel + ": escape_solidus test")
    chars, _ = push_pairs(default_seg[mm.end():], rel + ": escape_solidus")
    if len(chars) != 2:
        fail("unexpected form", rel + ": escape_solidus branch")
    f.scalar("escapeSolidus", (c_char(mm.group(1), rel), chars[0], chars[1]), "the `escape_solidus` branch: (byte, first, second)")
    anchor(r"else\s+if\s*\(\s*is_control_character\s*\(\s*c\s*\)\s*\|\|\s*escape_all_non_ascii\s*\)", default_seg, rel + ": control/non-ascii test of escape_string")
    anchor(r"if\s*\(\s*is_non_ascii_codepoint\s*\(\s*cp\s*\)\s*\|\|\s*is_control_character\s*\(\s*c\s*\)\s*\)", default_seg, rel + ": \\u test of escape_string")
    mm = anchor(r"if\s*\(\s*cp\s*>\s*(\w+)\s*\)", default_seg, rel + ": surrogate-pair test of escape_string")
    f.scalar("escapeMaxBmp", c_int(mm.group(1), rel), "`if (cp > …)`: above this a surrogate pair is written")
    mm = anchor(r"cp\s*-=\s*(\w+)\s*;\s*uint32_t\s+first\s*=\s*\(\s*cp\s*>>\s*(\w+)\s*\)\s*\+\s*(\w+)\s*;\s*uint32_t\s+second\s*=\s*\(\s*\(\s*cp\s*&\s*(\w+)\s*\)\s*\+\s*(\w+)\s*\)\s*;",
                default_seg, rel + ": surrogate arithmetic of escape_string")
    f.table("escapeSurrogateArith", [c_int(g, rel) for g in mm.groups()], "surrogate pair arithmetic: [subtracted, shift, high base, low mask, low base]")
    b, _ = function_body(txt, r"\bbool\s+is_control_character\s*\(", rel + ": is_control_character")
    mm = re.fullmatch(r"\s*return\s+c\s*<=\s*(\w+)\s*\|\|\s*c\s*==\s*(\w+)\s*;\s*", b)
    if not mm:
        fail("unexpected form", rel + ": is_control_character body %r" % b.strip())
    f.scalar("controlMax", c_int(mm.group(1), rel), "is_control_character: `c <= …`")
    f.table("controlAlso", [c_int(mm.group(2), rel)], "is_control_character: `|| c == …`")
    b, _ = function_body(txt, r"\bbool\s+is_non_ascii_codepoint\s*\(", rel + ": is_non_ascii_codepoint")
    mm = re.fullmatch(r"\s*return\s+cp\s*>=\s*(\w+)\s*;\s*", b)
    if not mm:
        fail("unexpected form", rel + ": is_non_ascii_codepoint body %r" % b.strip())
    f.scalar("nonAsciiMin", c_int(mm.group(1), rel), "is_non_ascii_codepoint: `cp >= …`")

    rel = "jsoncons/utility/write_number.hpp"
    b, _ = function_body(S.text(rel), r"\bchar\s+to_hex_character\s*\(", rel + ": to_hex_character")
    mm = re.fullmatch(r"\s*return\s*\(char\)\s*\(\s*\(\s*c\s*<\s*(\w+)\s*\)\s*\?\s*\(\s*('.')\s*\+\s*c\s*\)\s*:\s*\(\s*('.')\s*-\s*(\w+)\s*\+\s*c\s*\)\s*\)\s*;\s*", b)
    if not mm:
        fail("unexpected form", rel + ": to_hex_character body %r" % b.strip())
    f.table("hexCharacter", [c_int(mm.group(1), rel), c_char(mm.group(2), rel), c_char(mm.group(3), rel), c_int(mm.group(4), rel)],
            "to_hex_character: `(c < a) ? (b + c) : (d - e + c)` as [a, b, d, e]")
    return f, {"illegalControl": ill}


def x_error_codes(S):
    f = LeanFile("ErrorCodes", "enumerations: error codes and parser states, with their C++ numbering")
    rel = "jsoncons/json_error.hpp"
    f.table("jsonErrc", parse_enum(S.text(rel), "json_errc", rel + ": enum class json_errc"), "enum class json_errc (json_error.hpp)")
    rel = "jsoncons/json_parser.hpp"
    t = S.text(rel)
    f.table("parseState", parse_enum(t, "parse_state", rel + ": enum class parse_state"), "enum class parse_state (json_parser.hpp)")
    f.table("parseStringState", parse_enum(t, "parse_string_state", rel + ": enum class parse_string_state"), "enum class parse_string_state")
    f.table("parseNumberState", parse_enum(t, "parse_number_state", rel + ": enum class parse_number_state"), "enum class parse_number_state")
    for fmt in ("cbor", "msgpack", "ubjson", "bson"):
        rel = "jsoncons_ext/%s/%s_error.hpp" % (fmt, fmt)
        f.table(fmt + "Errc", parse_enum(S.text(rel), fmt + "_errc", rel + ": enum class %s_errc" % fmt), "enum class %s_errc (%s_error.hpp)" % (fmt, fmt))
    return f, {}


def x_bin_types(S):
    f = LeanFile("BinTypes", "type codes of the binary formats")
    rel = "jsoncons_ext/cbor/cbor_detail.hpp"
    raw, t = S.raw(rel), S.text(rel)
    f.table("cborMajorType", parse_enum(t, "cbor_major_type", rel + ": enum class cbor_major_type"), "enum class cbor_major_type (cbor_detail.hpp)")
    f.table("cborAdditionalInfo", parse_constants(namespace_body(t, "additional_info", rel + ": namespace additional_info"), rel + ": additional_info", ["indefinite_length"]),
            "namespace additional_info (cbor_detail.hpp)")
    consts = parse_constants(t, rel + ": cbor_array_tags_* constants", only=lambda n: n.startswith("cbor_array_tags_"))
    f.table("cborArrayTagFields", consts, "typed-array tag bit fields (RFC 8746), masks and shifts")
    small = parse_case_macro(raw, "JSONCONS_EXT_CBOR_0x00_0x17", rel + ": #define JSONCONS_EXT_CBOR_0x00_0x17", False)
    f.table("cborSmallArgs", small, "`JSONCONS_EXT_CBOR_0x00_0x17`: additional information that is itself the argument")
    tags = parse_case_macro(raw, "JSONCONS_EXT_CBOR_ARRAY_TAGS", rel + ": #define JSONCONS_EXT_CBOR_ARRAY_TAGS", False)
    f.table("cborArrayTags", tags, "`JSONCONS_EXT_CBOR_ARRAY_TAGS`: the typed-array tags")
    body, params = function_body(t, r"\bsize_t\s+min_length_for_stringref\s*\(", rel + ": min_length_for_stringref")
    pm = re.fullmatch(r"\s*[\w:]+\s+(\w+)\s*", params)
    if not pm:
        fail("unexpected form", rel + ": min_length_for_stringref parameters %r" % params)
    v = pm.group(1)
    rx = re.compile(r"\s*(?:else\s+)?if\s*\(\s*%s\s*(<=|<)\s*(\w+)\s*\)\s*\{\s*(\w+)\s*=\s*(\w+)\s*;\s*\}" % re.escape(v))
    m0 = anchor(r"std::size_t\s+(\w+)\s*;", body, rel + ": min_length_for_stringref result variable")
    res = m0.group(1)
    pos = m0.end()
    ladder = []
    while True:
        m = rx.match(body, pos)
        if not m:
            break
        if m.group(3) != res:
            fail("unexpected form", rel + ": min_length_for_stringref assigns " + m.group(3))
        lim = c_int(m.group(2), rel)
        ladder.append((lim if m.group(1) == "<=" else lim - 1, c_int(m.group(4), rel)))
        pos = m.end()
    m = re.compile(r"\s*else\s*\{\s*%s\s*=\s*(\w+)\s*;\s*\}\s*return\s+%s\s*;\s*$" % (re.escape(res), re.escape(res))).match(body, pos)
    if not ladder or not m:
        fail("unexpected form", rel + ": min_length_for_stringref is not an if/else-if ladder over `%s`" % v)
    f.table("cborStringrefLadder", ladder, "min_length_for_stringref (cbor_detail.hpp): (largest index of the rung, minimum length), in source order")
    f.scalar("cborStringrefElse", c_int(m.group(1), rel), "min_length_for_stringref: the final `else`")

    rel = "jsoncons_ext/msgpack/msgpack_type.hpp"
    f.table("msgpackTypes", parse_constants(namespace_body(S.text(rel), "msgpack_type", rel + ": namespace msgpack_type"), rel + ": msgpack_type", ["nil_type"]),
            "namespace msgpack_type (msgpack_type.hpp)")
    rel = "jsoncons_ext/ubjson/ubjson_type.hpp"
    f.table("ubjsonTypes", parse_constants(namespace_body(S.text(rel), "ubjson_type", rel + ": namespace ubjson_type"), rel + ": ubjson_type", ["null_type"]),
            "namespace ubjson_type (ubjson_type.hpp)")
    rel = "jsoncons_ext/bson/bson_type.hpp"
    f.table("bsonTypes", parse_constants(namespace_body(S.text(rel), "bson_type", rel + ": namespace bson_type"), rel + ": bson_type", ["double_type"]),
            "namespace bson_type (bson_type.hpp)")
    return f, {"cborSmallArgs": small, "cborArrayTags": tags}


def x_unicode(S):
    f = LeanFile("Unicode", "literal tables and constants of unicode_traits.hpp")
    rel = "jsoncons/utility/unicode_traits.hpp"
    t = S.text(rel)
    f.table("trailingBytesForUtf8", parse_array(t, "trailing_bytes_for_utf8", rel + ": trailing_bytes_for_utf8", 256), "trailing_bytes_for_utf8[256]")
    f.table("offsetsFromUtf8", parse_array(t, "offsets_from_utf8", rel + ": offsets_from_utf8"), "offsets_from_utf8[]")
    f.table("firstByteMark", parse_array(t, "first_byte_mark", rel + ": first_byte_mark"), "first_byte_mark[]")
    for n in ("bom_utf8", "bom_utf16le", "bom_utf16be", "bom_utf32le", "bom_utf32be"):
        f.table("".join(p if i == 0 else p.capitalize() for i, p in enumerate(n.split("_"))), parse_array(t, n, rel + ": " + n), n + "[]")
    names = ["replacement_char", "max_bmp", "max_utf16", "max_utf32", "max_legal_utf32", "half_shift", "half_base", "half_mask",
             "sur_high_start", "sur_high_end", "sur_low_start", "sur_low_end"]
    allc = dict(parse_constants(t, rel + ": constants", names, only=lambda n: n in names))
    f.table("unicodeConstants", [(n, allc[n]) for n in names], "named constants of unicode_traits.hpp (source: ConvertUTF.h)")
    b, _ = function_body(t, r"\bbool\s+is_continuation_byte\s*\(", rel + ": is_continuation_byte")
    mm = re.fullmatch(r"\s*return\s*\(\s*ch\s*&\s*(\w+)\s*\)\s*==\s*(\w+)\s*;\s*", b)
    if not mm:
        fail("unexpected form", rel + ": is_continuation_byte body %r" % b.strip())
    f.table("continuationByte", [c_int(mm.group(1), rel), c_int(mm.group(2), rel)], "is_continuation_byte: `(ch & a) == b` as [a, b]")
    return f, {}


NUMERIC_LIMITS = {"std::numeric_limits<double>::digits10": 15, "std::numeric_limits<double>::max_digits10": 17}


def find_functions(t):
    """(name/qualifier, body_start, body_end) for every `name(...) [const] {` whose body contains a char array or snprintf"""
    out = []
    for m in re.finditer(r"\b(operator\s*\(\s*\)|[A-Za-z_]\w*)\s*\(", t):
        name = re.sub(r"\s+", "", m.group(1))
        if name in ("if", "for", "while", "switch", "return", "sizeof", "catch", "snprintf", "defined", "static_cast", "JSONCONS_THROW"):
            continue
        i = m.end() - 1
        try:
            j = match_close(t, i, "(", ")")
        except ExtractError:
            continue
        mm = re.compile(r"\s*(?:const\s*)?(?:noexcept\s*)?\{").match(t, j + 1)
        if not mm:
            continue
        b = mm.end() - 1
        e = match_close(t, b)
        params = t[i + 1:j]
        last = params.split(",")[-1].strip()
        qual = name
        if name == "operator()":
            cls = re.findall(r"\bclass\s+(\w+)", t[:m.start()])
            qual = (cls[-1] if cls else "?") + "::operator()"
        if re.fullmatch(r"std::(true|false)_type", last):
            qual = name + "/" + last[5:]
        out.append((qual, b + 1, e))
    return out


def x_buffers(S):
    f = LeanFile("Buffers", "stack buffers, snprintf formats and digit tables of write_number.hpp / read_number.hpp")
    rel = "jsoncons/utility/write_number.hpp"
    t = S.text(rel)
    fns = find_functions(t)

    def owner(pos):
        best = None
        for q, b, e in fns:
            if b <= pos < e and (best is None or b > best[1]):
                best = (q, b, e)
        if best is None:
            fail("unexpected form", rel + ": no enclosing function at offset %d" % pos)
        return best

    bufs = []
    for m in re.finditer(r"\bchar\s+(\w+)\s*\[\s*(\w+)\s*\]\s*;", t):
        bufs.append((owner(m.start())[0], m.group(1), c_int(m.group(2), rel)))
    if not bufs:
        fail("anchor not found", rel + ": `char name[N];`")
    f.table("charBuffers", bufs, "every `char name[N];` of write_number.hpp: (function, variable, N)")
    calls = []
    for m in re.finditer(r"\bsnprintf\s*\(", t):
        j = match_close(t, m.end() - 1, "(", ")")
        args = [a.strip() for a in re.split(r",(?![^()]*\))", t[m.end():j])]
        if len(args) != 5 or not re.fullmatch(r'"[^"]*"', args[2]):
            fail("unexpected form", rel + ": snprintf(%s)" % t[m.end():j])
        q, b, e = owner(m.start())
        target, size_expr, fmt, prec = args[0], args[1], args[2][1:-1], args[3]
        # resolve the precision expression: a literal, a known numeric_limits constant, a local initialised with one, or a member (user supplied)
        pv = None
        if prec in NUMERIC_LIMITS:
            pv = NUMERIC_LIMITS[prec]
        elif re.fullmatch(r"\d+", prec):
            pv = int(prec)
        else:
            mm = re.search(r"\b(?:const\s+)?int\s+%s\s*=\s*([^;]+);" % re.escape(prec), t[b:m.start()])
            if mm:
                ex = mm.group(1).strip()
                if ex not in NUMERIC_LIMITS:
                    fail("unexpected form", rel + ": precision `%s = %s`" % (prec, ex))
                pv = NUMERIC_LIMITS[ex]
            elif not prec.endswith("_"):
                fail("unexpected form", rel + ": precision expression `%s` in %s" % (prec, q))
        is_stack = any(bq == q and bn == target for bq, bn, _ in bufs)
        if is_stack and size_expr != "sizeof(%s)" % target:
            fail("unexpected form", rel + ": snprintf into %s with size `%s`" % (target, size_expr))
        # is the returned length compared with the buffer size before the buffer is read?
        nxt = re.compile(r"\b(?!snprintf\b)\w+\s*\(\s*%s\s*," % re.escape(target)).search(t, j, e)
        upto = nxt.start() if nxt else e
        guarded = bool(re.search(r"\)\s*<\s*sizeof\s*\(\s*%s\s*\)" % re.escape(target), t[j:upto]))
        size = [bs for bq, bn, bs in bufs if bq == q and bn == target]
        calls.append((q, target, size[0] if size else 0, fmt, pv if pv is not None else 0, pv is None, guarded))
    if not calls:
        fail("anchor not found", rel + ": snprintf calls")
    f.table("snprintfCalls", calls,
            "every snprintf of write_number.hpp: (function, target, target size or 0 if not a stack array, format, precision or 0, precision is a member (user supplied), "
            "length checked against sizeof(target) before the target is read)")
    f.table("numericLimits", [("digits10", 15), ("max_digits10", 17)], "std::numeric_limits<double> constants assumed for the precision expressions (IEEE binary64)")

    rel = "jsoncons/json_options.hpp"
    m = anchor(r"\b(u?int\d+_t|int|unsigned|std::size_t)\s+precision_\s*\{\s*(\w+)\s*\}\s*;", S.text(rel), rel + ": precision_ member")
    f.scalar("optionsPrecisionType", m.group(1), "type of basic_json_options::precision_ (bounds the precision a user can request through options)")
    f.scalar("optionsPrecisionDefault", c_int(m.group(2), rel), "its default")

    rel = "jsoncons/utility/read_number.hpp"
    t = S.text(rel)
    f.table("digiTable", parse_array(t, "digi_table", rel + ": digi_table", 256, pad=True),
            "digi_table[256] (read_number.hpp); the source gives 128 initialisers, the rest is zero-initialised by the language")
    bits = parse_constants(t, rel + ": DIGIT_TYPE_*", only=lambda n: n.startswith("DIGIT_TYPE_"))
    if len(bits) < 6:
        fail("anchor not found", rel + ": DIGIT_TYPE_* constants")
    f.table("digitTypeBits", bits, "DIGIT_TYPE_* bit masks")
    preds = []
    for m in re.finditer(r"constexpr\s+bool\s+(is_\w+)\s*\(\s*char\s+d\s*\)\s*\{\s*return\s+is_type\s*\(\s*static_cast<uint8_t>\(d\)\s*,\s*\(uint8_t\)\s*\(?([A-Z_|\s]+?)\)?\s*\)\s*;\s*\}", t):
        mask = 0
        for nm in m.group(2).split("|"):
            nm = nm.strip()
            if nm not in dict(bits):
                fail("unexpected form", rel + ": %s uses %s" % (m.group(1), nm))
            mask |= dict(bits)[nm]
        preds.append((m.group(1), mask))
    if len(preds) < 5:
        fail("anchor not found", rel + ": is_sign/is_digit/... predicates over digi_table")
    f.table("digitPredicates", preds, "the `char` predicates over digi_table: (name, mask passed to is_type)")
    return f, {}


def x_defaults(S):
    f = LeanFile("Defaults", "default option values and fixed capacities")
    rows = []
    rel = "jsoncons/json_options.hpp"
    m = anchor(r"\bmax_nesting_depth_\s*\(\s*(\w+)\s*\)", S.text(rel), rel + ": max_nesting_depth_(N) initialiser")
    rows.append(("json", c_int(m.group(1), rel)))
    for fmt in ("cbor", "msgpack", "ubjson", "bson", "csv", "toon"):
        rel = "jsoncons_ext/%s/%s_options.hpp" % (fmt, fmt)
        m = anchor(r"\b(?:int|std::size_t)\s+max_nesting_depth_\s*\{\s*([^}]+)\}\s*;", S.text(rel), rel + ": max_nesting_depth_{N}")
        rows.append((fmt, c_int(m.group(1), rel)))
    f.table("maxNestingDepth", rows, "default max_nesting_depth per format (json_options.hpp, *_options.hpp)")
    rel = "jsoncons_ext/ubjson/ubjson_options.hpp"
    m = anchor(r"\bstd::size_t\s+max_items_\s*\{\s*([^}]+)\}\s*;", S.text(rel), rel + ": max_items_{N}")
    f.scalar("ubjsonMaxItems", c_int(m.group(1), rel), "default ubjson max_items")
    rel = "jsoncons_ext/toon/toon_options.hpp"
    m = anchor(r"\bstd::size_t\s+flatten_depth_\s*\{\s*([^}]+)\}\s*;", S.text(rel), rel + ": flatten_depth_{N}")
    f.scalar("toonFlattenDepth", c_int(m.group(1), rel), "default toon flatten_depth")
    rel = "jsoncons/json_parser.hpp"
    c = dict(parse_constants(S.text(rel), rel + ": capacities", ["initial_buffer_capacity", "default_initial_stack_capacity"],
                           only=lambda n: n in ("initial_buffer_capacity", "default_initial_stack_capacity")))
    f.scalar("parserInitialBufferCapacity", c["initial_buffer_capacity"], "basic_json_parser::initial_buffer_capacity")
    f.scalar("parserInitialStackCapacity", c["default_initial_stack_capacity"], "basic_json_parser::default_initial_stack_capacity")
    return f, {}


def cpp_crosscheck(repo, want):
    """expand the case-label macros with the real preprocessor and require the same lists"""
    probe = ('#include <jsoncons/json_parser.hpp>\n#include <jsoncons_ext/cbor/cbor_detail.hpp>\n'
             'XTRACT_A JSONCONS_ILLEGAL_CONTROL_CHARACTER XTRACT_END\n'
             'XTRACT_B JSONCONS_EXT_CBOR_0x00_0x17 XTRACT_END\nXTRACT_C JSONCONS_EXT_CBOR_ARRAY_TAGS XTRACT_END\n')
    with tempfile.NamedTemporaryFile("w", suffix=".cpp", delete=False) as tf:
        tf.write(probe)
    try:
        p = subprocess.run(["g++", "-std=c++17", "-E", "-P", "-I", os.path.join(repo, "include"), tf.name],
                           stdout=subprocess.PIPE, stderr=subprocess.PIPE, timeout=120)
    finally:
        os.unlink(tf.name)
    if p.returncode != 0:
        fail("anchor not found", "g++ -E failed: " + p.stderr.decode("utf-8", "replace")[-400:])
    out = p.stdout.decode("utf-8", "replace")
    for tag, key in (("XTRACT_A", "illegalControl"), ("XTRACT_B", "cborSmallArgs"), ("XTRACT_C", "cborArrayTags")):
        m = anchor(tag + r"\s+(.*?)\s*XTRACT_END", out, "preprocessed " + key, re.S)
        got = [c_int(x, key) for x in re.findall(r"(?:case\s+)?(0[xX][0-9a-fA-F]+|\d+)\s*(?::|$)", m.group(1))]
        if got != want[key]:
            fail("unexpected form", "%s: text of the #define and g++ -E disagree (%r vs %r)" % (key, want[key], got))


GROUPS = [x_json_tables, x_error_codes, x_bin_types, x_unicode, x_buffers, x_defaults]


def selftest(out_dir, files):
    """re-parse what was written: every def present, every table has the recorded number of top-level entries"""
    for f in files:
        txt = open(os.path.join(out_dir, f.name + ".lean"), encoding="utf-8").read()
        for name, ty, _, _, length in f.defs:
            m = re.search(r"^def %s : %s := (.*?)\n\n" % (re.escape(name), re.escape(ty)), txt, re.M | re.S)
            if not m:
                fail("selftest", "%s.%s not found in the written file" % (f.name, name))
            if length is None:
                continue
            body = m.group(1).strip()
            if not (body.startswith("[") and body.endswith("]")):
                fail("selftest", "%s.%s is not a list literal" % (f.name, name))
            depth, count, in_str, seen = 0, 0, False, False
            k = 0
            inner = body[1:-1]
            while k < len(inner):
                ch = inner[k]
                if in_str:
                    if ch == "\\":
                        k += 1
                    elif ch == '"':
                        in_str = False
                elif ch == '"':
                    in_str = True
                    seen = True
                elif ch == "(":
                    depth += 1
                    seen = True
                elif ch == ")":
                    depth -= 1
                elif ch == "," and depth == 0:
                    count += 1
                elif not ch.isspace():
                    seen = True
                k += 1
            n = count + 1 if seen else 0
            if n != length:
                fail("selftest", "%s.%s: %d entries written, %d extracted" % (f.name, name, n, length))
    return True


def main():
    ap = argparse.ArgumentParser()
    ap.add_argument("--repo", default=os.environ.get("VERIF_REPO", "/repo"))
    ap.add_argument("--out", required=True)
    ap.add_argument("--selftest", action="store_true")
    ap.add_argument("--cpp", action="store_true", help="cross-check the case-label macros against g++ -E -P")
    ap.add_argument("--quiet", action="store_true")
    a = ap.parse_args()
    try:
        S = Src(a.repo)
        files, want = [], {}
        for g in GROUPS:
            f, w = g(S)
            files.append(f)
            want.update(w)
        if a.cpp:
            cpp_crosscheck(a.repo, want)
        os.makedirs(a.out, exist_ok=True)
        written = 0
        outputs = [("Lookup", LOOKUP_LEAN)] + [(f.name, f.render()) for f in files]
        for name, text in outputs:
            p = os.path.join(a.out, name + ".lean")
            old = None
            if os.path.exists(p):
                with open(p, encoding="utf-8") as fh:
                    old = fh.read()
            if old != text:
                tmp = p + ".tmp%d" % os.getpid()
                with open(tmp, "w", encoding="utf-8") as fh:
                    fh.write(text)
                os.replace(tmp, p)
                written += 1
        if a.selftest:
            selftest(a.out, files)
        if not a.quiet:
            nd = sum(len(f.defs) for f in files)
            print("extract: %d definitions in %d files from %s (%d file(s) rewritten)%s" % (
                nd, len(files), a.repo, written, "; selftest ok" if a.selftest else ""))
        return 0
    except ExtractError as e:
        print("extract: " + str(e), file=sys.stderr)
        return 1


if __name__ == "__main__":
    sys.exit(main())
