#!/bin/bash
# usage: tools/confirm_suite.sh <patch.diff|--repo-diff>  — run the repository's full test suite on /tmp/confirm with a change applied
# (incremental ninja build; the worktree is reset afterwards). Prints PASS/FAIL and the number of failed tests.
set -u
W=/tmp/confirm
cd $W || exit 2
git checkout -q -- .; git checkout -q --detach $(git -C /repo rev-parse HEAD)
if [ "$1" = "--repo-diff" ]; then git -C /repo diff > /tmp/confirm_patch.diff; P=/tmp/confirm_patch.diff; else P="$1"; fi
if [ "$1" != "--head" ]; then git apply "$P" || { echo "patch does not apply"; exit 2; }; fi
nice ninja -C _build -j${JOBS:-12} > /tmp/confirm_ninja.log 2>&1 || { echo "BUILD-FAIL"; tail -20 /tmp/confirm_ninja.log; git checkout -q -- .; exit 1; }
(cd _build && ctest -j8 --timeout 900 > /tmp/confirm_ctest.log 2>&1)
rc=$?
tail -3 /tmp/confirm_ctest.log
git checkout -q -- .
if [ $rc -eq 0 ]; then echo "SUITE PASS"; else echo "SUITE FAIL"; fi
exit $rc
