#!/usr/bin/env python3
"""tools/keep_seed.py <name> <property> <patch.diff> <demo.cpp> <notes.txt> [--checks C14,C15]
Confirms a seeded change (applies to /repo HEAD; full suite passes in /tmp/confirm; demo exits 0 without and !=0 with the change),
runs the registered check(s) against it, and archives it under /verif/seeded/<name>/."""
import json, os, shutil, subprocess, sys

if sys.argv[1] == "--finish":
    name = sys.argv[2]
    out = os.path.join("/verif", "seeded", name)
    meta = json.load(open(os.path.join(out, "meta.json")))
    p = subprocess.run("JOBS=12 /verif/tools/confirm_suite.sh %s" % os.path.join(out, "patch.diff"), shell=True, stdout=subprocess.PIPE, stderr=subprocess.STDOUT)
    o = p.stdout.decode("utf-8", "replace")
    meta["suite"] = "pass" if p.returncode == 0 else "FAIL: " + o[-300:]
    meta["ran"] = ["g++ demo on clean tree (exit %d) and with patch (exit %d)" % (meta["demo_exit_clean"], meta["demo_exit_changed"]),
                   "tools/confirm_suite.sh: full unit_tests rebuilt with the patch in a scratch worktree, ctest: %s" % meta["suite"][:4],
                   "python3 check.py <id> --tier quick with the patch applied to /repo, then git checkout -- ."]
    meta["confirmed"] = (meta["demo_exit_clean"] == 0 and meta["demo_exit_changed"] != 0 and p.returncode == 0)
    json.dump(meta, open(os.path.join(out, "meta.json"), "w"), indent=1)
    print(name, meta["confirmed"], meta["suite"][:60])
    sys.exit(0)
name, prop, patch, demo, notes = sys.argv[1:6]
checks = [prop]
if "--checks" in sys.argv:
    checks = sys.argv[sys.argv.index("--checks") + 1].split(",")
ROOT = "/verif"
out = os.path.join(ROOT, "seeded", name)
os.makedirs(out, exist_ok=True)


def sh(cmd, **kw):
    p = subprocess.run(cmd, shell=True, stdout=subprocess.PIPE, stderr=subprocess.STDOUT, **kw)
    return p.returncode, p.stdout.decode("utf-8", "replace")


meta = {"name": name, "property": prop, "needs": open(notes).read() if os.path.exists(notes) else ""}
WT = None
if "--wt" in sys.argv:
    # try the change in a private worktree of /repo's HEAD (several seeds at once); the checks read it through VERIF_REPO
    WT = "/tmp/seedwt/" + name
    sh("git -C /repo worktree remove --force %s; rm -rf %s %s.out" % (WT, WT, WT))
    rc, o = sh("mkdir -p /tmp/seedwt && git -C /repo worktree add -q --detach %s HEAD" % WT)
    assert rc == 0, o
    TREE = WT
    ENV = "VERIF_REPO=%s VERIF_OUT=%s.out " % (WT, WT)
else:
    rc, o = sh("git -C /repo status --porcelain --untracked-files=no")
    assert o.strip() == "", "repo not clean"
    TREE = "/repo"
    ENV = ""
# demo without the change
rc0, o0 = sh("g++ -std=c++17 -O0 -w -I%s/include %s -o /tmp/seed_demo_%s && /tmp/seed_demo_%s" % (TREE, demo, name, name))
rc, o = sh("git -C %s apply %s" % (TREE, patch))
assert rc == 0, "patch does not apply: " + o
try:
    rc1, o1 = sh("g++ -std=c++17 -O0 -w -I%s/include %s -o /tmp/seed_demo_%s && /tmp/seed_demo_%s" % (TREE, demo, name, name))
    results = {}
    for c in checks:
        rcc, oc = sh("cd /verif && %spython3 check.py %s --tier quick" % (ENV, c))
        lines = [l for l in oc.split("\n") if l.startswith(("VIOLATION", "OK ", "KNOWN"))]
        results[c] = {"exit": rcc, "lines": lines[:4]}
finally:
    if WT:
        sh("git -C /repo worktree remove --force %s; rm -rf %s %s.out /tmp/seed_demo_%s" % (WT, WT, WT, name))
    else:
        sh("git -C /repo checkout -- .")
shutil.copy(patch, os.path.join(out, "patch.diff"))
shutil.copy(demo, os.path.join(out, "demo.cpp"))
if "--bg-suite" in sys.argv:
    # the suite run only touches /tmp/confirm: queue it behind a lock and finish meta.json there
    meta["demo_exit_clean"] = rc0
    meta["demo_exit_changed"] = rc1
    meta["demo_output_changed"] = o1[-600:]
    meta["checks"] = results
    meta["suite"] = "pending"
    json.dump(meta, open(os.path.join(out, "meta.json"), "w"), indent=1)
    subprocess.Popen("setsid nohup flock /tmp/confirm.lock python3 /verif/tools/keep_seed.py --finish %s > /tmp/keep_%s.log 2>&1 &" % (name, name), shell=True)
    print(name, "repo stage done; suite queued", "demo:", rc0, rc1, {c: r["exit"] for c, r in results.items()})
    sys.exit(0)
rcs, os_ = sh("JOBS=14 /verif/tools/confirm_suite.sh %s" % patch)
meta["demo_exit_clean"] = rc0
meta["demo_exit_changed"] = rc1
meta["demo_output_changed"] = o1[-600:]
meta["suite"] = "pass" if rcs == 0 else "FAIL: " + os_[-300:]
meta["checks"] = results
meta["ran"] = ["g++ demo on clean tree (exit %d) and with patch (exit %d)" % (rc0, rc1),
               "tools/confirm_suite.sh: full unit_tests rebuilt with the patch in a scratch worktree, ctest: %s" % meta["suite"][:4],
               "python3 check.py <id> --tier quick with the patch applied to /repo, then git checkout -- ."]
meta["confirmed"] = (rc0 == 0 and rc1 != 0 and rcs == 0)
shutil.copy(patch, os.path.join(out, "patch.diff"))
shutil.copy(demo, os.path.join(out, "demo.cpp"))
json.dump(meta, open(os.path.join(out, "meta.json"), "w"), indent=1)
print(name, "confirmed" if meta["confirmed"] else "NOT CONFIRMED", "suite:", meta["suite"][:40], "demo:", rc0, rc1,
      {c: r["exit"] for c, r in results.items()})
