#!/usr/bin/env python3
"""Regenerates the tables of DESIGN.md §9 (between the BEGIN/END GENERATED markers) from known_findings.json, seeded/*/meta.json and the
theorem names in lean/JV/Props/*.lean."""
import json, os, re, glob
ROOT = os.path.dirname(os.path.dirname(os.path.abspath(__file__)))


def findings_table():
    k = json.load(open(os.path.join(ROOT, "known_findings.json")))
    rows = ["| id | property | status | what |", "|---|---|---|---|"]

    def key(f):
        m = re.match(r"D(\d+)(.*)", f["id"])
        return (int(m.group(1)), m.group(2))
    for f in sorted(k["findings"], key=key):
        st = "known finding" if f["status"] == "known" else "fixed in /repo %s" % f.get("commit", "")
        rows.append("| %s | %s | %s | %s |" % (f["id"], f["property"], st, f["what"].replace("|", "\\|")))
    return "\n".join(rows)


def seeds_table():
    rows = ["| seeded change | property | what it changes (first line of the author's note) | demo exit clean/changed | full suite with the change | check that reports it |", "|---|---|---|---|---|---|"]
    for d in sorted(glob.glob(os.path.join(ROOT, "seeded", "C*"))):
        mp = os.path.join(d, "meta.json")
        if not os.path.exists(mp):
            continue
        m = json.load(open(mp))
        first = [l for l in m.get("needs", "").split("\n") if l.strip() and not set(l.strip()) <= set("=-")]
        first = first[0].strip()[:170] if first else ""
        caught = ", ".join("%s (VIOLATION)" % c if v.get("exit") else "%s (MISSED)" % c for c, v in m.get("checks", {}).items())
        rows.append("| %s | %s | %s | %s/%s | %s | %s |" % (m["name"], m["property"], first.replace("|", "\\|"), m.get("demo_exit_clean"), m.get("demo_exit_changed"), m.get("suite", "?")[:12], caught))
    return "\n".join(rows)


def theorems_table():
    rows = ["| property | theorems in lean/JV/Props (names) |", "|---|---|"]
    for p in sorted(glob.glob(os.path.join(ROOT, "lean", "JV", "Props", "C*.lean"))):
        names = re.findall(r"^theorem\s+([A-Za-z0-9_'.]+)", open(p).read(), re.M)
        errc = [n for n in names if n.startswith("errc_") and n != "errc_complete"]
        shown = [n for n in names if n not in errc]
        extra = (" + `errc_<name>` for each of the %d json_errc enumerators" % len(errc)) if errc else ""
        rows.append("| %s (%d) | %s%s |" % (os.path.basename(p)[:-5], len(names), ", ".join("`%s`" % n for n in shown), extra))
    return "\n".join(rows)


def main():
    p = os.path.join(ROOT, "DESIGN.md")
    s = open(p).read()
    for tag, fn in (("FINDINGS", findings_table), ("SEEDS", seeds_table), ("THEOREMS", theorems_table)):
        a = "<!-- BEGIN GENERATED %s -->" % tag
        b = "<!-- END GENERATED %s -->" % tag
        if a in s and b in s:
            s = s[:s.index(a) + len(a)] + "\n" + fn() + "\n" + s[s.index(b):]
    open(p, "w").write(s)


if __name__ == "__main__":
    main()
